"""C07 - regularization matrices are symmetric PSD (PD where stated) with the stated quadratic form; blocks in object order."""
import copy
import itertools

import numpy as np

from mc import dom, fix_inv
from mc.core import V
from mc.ref import rectangular as ref_rect

ID = "C07"
ENGINE = "scope"
CHUNK = 16
RULE = (
    "two case families, both completely enumerated. 'S' = (data plane [mask, sub-size, source-plane distortion], mesh "
    "[every rectangular shape RxC in the bound | every Delaunay vertex menu x jitter variant], scheme, parameter tuple "
    "from the coefficient/signal-scale/kernel-scale menus, adapt image kind): the real scheme is run on a real Mapper and "
    "its matrix compared with the reference assembled from an independent adjacency (4-connectivity written here; "
    "empty-circumcircle triangulation written here), plus symmetry/size/PSD/PD/log-det (log-det read from a real "
    "aa.Inversion). 'B' = (mask, ordered list of 1..3 distinct linear-object kinds, every regularization on/off pattern, "
    "formalism): inversion.regularization_matrix/_reduced against the block layout, read first, and read again (together "
    "with the arrays obtained at the first read) after curvature_reg_matrix and reconstruction have been evaluated. "
    "'P' = (mask, ordered list of 2..3 kinds with >= 1 regularized, formalism): one aa.Preloads(regularization_matrix=H) "
    "shared by two successive inversions. 'R' = (mask, object kind, scheme transition {S->S', S->None, None->S}, layout "
    "{same object, copy.copy + reassign alone, original next to the copy}, formalism): LinearObj.regularization_matrix is "
    "read, the regularization attribute is re-assigned, and the inversion must contain the block of the CURRENT scheme. "
    "'U' = (data plane, ordered pair of different meshes, scheme, parameter tuple, adapt kind): ONE scheme instance is "
    "applied to mesh A, then to mesh B, then to A again; every matrix must equal the one of a fresh instance and obey all "
    "laws. 'K' = (data plane, mesh [rectangular 5..7 x 5..7 | vertex-set menu: jittered lattice, uniform, ring + centre, nearly "
    "coincident pairs], kernel scheme, coefficient, kernel scale as a multiple 0.1..10 of the FIELD size): GaussianKernel / "
    "ExponentialKernel from well separated to completely overlapping kernels; the matrix is compared with coefficient * C^-1 "
    "for the covariance C written from the definition (kernel of the pair distance + the documented 1e-8 ridge on the "
    "diagonal; spectral inverse), norm-wise, as a quadratic form on every eigenvector of C relative to its own value, for "
    "symmetry, strict positive definiteness of the symmetric part (+ Cholesky of the matrix as returned where round-off "
    "cannot decide it) and for the log-determinant read from a real aa.Inversion - every tolerance a multiple of "
    "eps * cond(C) of the reference. 'M' = (mask, ordered list of 2..3 objects in which the SAME instance occurs more than "
    "once [aa, aaa, aab, aba, baa over the five kinds; and a, a, a' with a' a second instance of the same kind in the other "
    "regularization state], every on/off pattern of the distinct instances, formalism): block layout with one block per "
    "OCCURRENCE, zero blocks, regularization_matrix_reduced, log_det_regularization_matrix_term (sum over occurrences), "
    "curvature_reg_matrix_reduced against reference F + H on the regularized occurrences and its log-determinant, re-read "
    "after the solve. non-trivial = S: mesh is non-square or Delaunay, or the scheme is adaptive with a non-constant weight "
    "vector; B: list has >= 2 objects with at least one unregularized and one regularized object; K: cond(C) >= 1e8 (the "
    "ridge, not the kernel, bounds the smallest eigenvalue); P, R, U, M: always"
)
ASSUMPTIONS = [
    "a quadratic form is determined by its (symmetric) matrix, so the stated x^T H x identities are checked by comparing "
    "the whole matrix entrywise with c^2*L + 1e-8*I (L = Laplacian of the independent adjacency), resp. the pair-weighted "
    "Laplacian with weights w_i^2 + w_j^2 from the scheme's own regularization_weights_from",
    "rectangular meshes are restricted to shapes >= 3x3 (the documented minimum of the Rectangular pixelization); "
    "Delaunay vertex sets are in general position (|in-circle determinant| > 1e-4, |orientation| > 1e-3 for every "
    "triple/quadruple), so the triangulation is unique and no floating-point coin flip can occur",
    "adapt images are non-negative with a positive maximum (pixel signals are normalised by their maximum and raised to "
    "a possibly fractional power)",
    "kernel scales are taken relative to the mean mesh spacing (0.4, 0.7, 1.0 x spacing): the covariance matrix of the "
    "kernel schemes is then conditioned <~1e4 so that symmetry at 1e-12 is a meaningful demand on a numerically inverted matrix",
    "log-determinants are compared with a conditioning-aware tolerance 1e-8*(1+|logdet|) + 20*eps*cond(H): "
    "a 1e-8 ridge under a coefficient^2 ~ 50 Laplacian makes cond(H) ~ 4e10 and two LU factorizations then legitimately "
    "differ by ~1e-6 (observed <= 0.1*eps*cond); defects of the log-determinant are O(1)",
    "histories (B after-solve, P, R, U) use differential oracles: the matrix of a fresh scheme instance on an independently "
    "built twin object, compared bitwise (the computation is deterministic); copy.copy(linear_obj) followed by assigning "
    ".regularization is the library's own idiom for deriving an object with another scheme; for the kernel schemes the "
    "reuse pass additionally demands H C = coefficient * I for the documented covariance C of the SECOND mesh, but only when "
    "the first use of the same instance obeys that formula (self-calibrated, so a changed kernel definition cannot alarm)",
    "family K: the kernel schemes return coefficient * inv(C) of a covariance whose condition number reaches n * 1e8 once the "
    "kernel scale exceeds a few mesh spacings (the 1e-8 ridge documented in gauss_cov_matrix_from / exp_cov_matrix_from is "
    "then the smallest eigenvalue). A numerically inverted matrix is only defined up to ~eps * cond(C) relative to its norm, "
    "so: symmetry 20 * eps * cond (observed <= 0.4), norm-wise distance to the spectral inverse of the reference covariance "
    "100 * eps * cond (observed <= 6), q_k^T H q_k against coefficient / lambda_k on the eigenpairs of C 200 * eps * cond "
    "relative to each value (observed <= 11; first-order perturbation theory of the column-wise backward error gives "
    "sqrt(n) * eps * cond), log-determinant 1e-8 * (1 + |logdet|) + 50 * n * eps * cond (observed <= 1.1 * n * eps * cond). "
    "Strict positive definiteness is demanded of the symmetric part (x^T H x > 0 for all x; smallest eigenvalue "
    "coefficient / lambda_max(C) >= coefficient / (n + 1), resolved by eigvalsh to ~1e-8 * coefficient) together with its "
    "Cholesky factorization and a positive determinant sign; np.linalg.cholesky of the matrix AS RETURNED reads one triangle "
    "only and is demanded where 100 * eps * cond * ||H|| stays below the smallest eigenvalue (on the unchanged tree it fails "
    "by round-off for some GaussianKernel scales >= 1 x field although the symmetric part is PD - not counted against the "
    "property, whose evidence terms use an LU-based log-determinant for H and factorize F + H)",
    "family K: MaternKernel is not enumerated - its constructor raises ModuleNotFoundError without numba_scipy (absent here) "
    "and the property's quantifier lists GaussianKernel and ExponentialKernel only; vertex sets of this family are handed to "
    "Mesh2DDelaunay but only their positions are used (no adjacency is modelled, nearly coincident vertices are allowed)",
    "family M: only the observables of the property and their reduced / log-determinant companions are demanded. The library "
    "keys its per-object dictionaries (reconstruction_dict, mapped_reconstructed_data_dict ...) by linear object, so "
    "per-object quantities are not defined for a list with a repeated instance and are not read here; the unchanged tree "
    "supports regularization_matrix(_reduced), curvature_reg_matrix(_reduced), both log-determinant terms and reconstruction "
    "for every such list in both formalisms (established by running them)",
]
BOUNDS = {
    "quick": "[round 5: S also runs Constant / ConstantZeroth with coefficient 3e-5 (c^2 below the 1e-8 ridge, entrywise relative comparison); B additionally re-runs every list that mixes regularized mappers with unregularized objects with BrightnessZeroth on the mappers (exactly-zero rows inside a regularized block must stay in the reduced matrix)] S: rectangular meshes 3..6 x 3..6 (16 shapes), 8 Delaunay menus (5..10 vertices) x 2 jitter variants; coefficients "
             "{0.1,1,7}, signal scales {0.5,1,2}, kernel scales {0.4,0.7,1.0} x mesh spacing, adapt images {positive, with zeros, "
             "peaked}; data planes: non-adaptive schemes 2, adaptive schemes 4 (of 5 masks x sub 1,2 x identity/warp); all nine "
             "schemes (split-cross on Delaunay only). B: 7x7 frame/3x3 PSF, 2 masks, every ordered list of 1..3 distinct kinds "
             "of {rectA,rectB,del,func,funcS} x every on/off pattern x use_w_tilde on/off. P: every ordered pair of kinds x the 3 "
             "patterns with >= 1 regularized + 4 triples, 1 mask, both formalisms. R: 5 kinds x 3 transitions x 3 layouts x both "
             "formalisms, 1 mask. U: 9 mesh pairs (rect 3x3/3x5/5x3/4x4, Delaunay menus; equal and unequal sizes) x 13 "
             "scheme/parameter tuples (split-cross on the 3 Delaunay pairs only). K: 1 data plane, rectangular 5..7 x 5..7 "
             "(9 shapes) + 7 vertex sets (lattice 16/25/36, uniform 20/30, ring 13, pairs 16) x {Gaussian, Exponential} x scale/"
             "field {0.1,0.2,0.5,1,2,5,10} at coefficient 1 and {0.5,5} at coefficients 0.1, 7 (352 cases). M: 1 mask, every list "
             "aa, aaa, aab, aba, baa over 5 kinds + a,a,a' arrangements (290 lists with their on/off patterns) x both formalisms",
    "thorough": "S: rectangular meshes 3..7 x 3..7 (25 shapes), 8 Delaunay menus x 3 jitter variants; same value menus with the "
                "full coefficient-pair grids; all 20 data planes for adaptive schemes, 4 for the others. B: as quick on 3 masks; "
                "P, R: as quick on 3 masks; U: as quick on 2 data planes. K: 3 data planes, 9 rectangular shapes + 11 vertex "
                "sets (adds lattice 49, uniform 40, ring 25, pairs 24), full coefficient x scale grid. M: 3 masks, the quick lists "
                "+ every list of 4 over two instances of {rectA, del, func, funcS} that uses both",
}

COEFFS = [0.1, 1.0, 7.0]
# a legal positive coefficient whose square lies BELOW the 1e-8 ridge: the pair couplings -c^2 are then the smallest entries of H
# and the stated matrix is compared entrywise, relative to each entry
SMALL_COEFFS = [3.0e-5]
SIGNAL_SCALES = [0.5, 1.0, 2.0]
KSCALES = [0.4, 0.7, 1.0]
ADAPT_KINDS = ["pos", "zeros", "peak"]
STRICT = {"Constant", "AdaptiveBrightness", "ConstantSplit", "AdaptiveBrightnessSplit", "GaussianKernel", "ExponentialKernel"}
ADAPTIVE = {"AdaptiveBrightness", "BrightnessZeroth", "AdaptiveBrightnessSplit"}
SPLIT = {"ConstantSplit", "AdaptiveBrightnessSplit"}

FRAME, KSHAPE = [7, 7], [3, 3]
MASKS = {  # 5x5 interior of the 7x7 frame, '1' = unmasked
    "full": ["11111", "11111", "11111", "11111", "11111"],
    "ring": ["11111", "10001", "10001", "10001", "11111"],
    "ragged": ["01100", "11110", "01111", "00110", "00011"],
    "two": ["11000", "11000", "00000", "00011", "00111"],
    "small": ["00000", "00100", "01100", "00000", "00000"],
}


def mask_bits(name):
    bits, k = 0, 0
    for row in MASKS[name]:
        for ch in row:
            if ch == "1":
                bits |= 1 << k
            k += 1
    return bits


# ----------------------------------------------------------------------------- independent adjacency


def rect_edges(R, C):
    """4-connectivity of the row-major R x C cell grid, each unordered pair once."""
    e = []
    for r in range(R):
        for c in range(C):
            i = r * C + c
            if c + 1 < C:
                e.append((i, i + 1))
            if r + 1 < R:
                e.append((i, i + C))
    return e


def _orient(a, b, c):
    return (b[0] - a[0]) * (c[1] - a[1]) - (b[1] - a[1]) * (c[0] - a[0])


def _incircle(a, b, c, d):
    """> 0 iff d lies strictly inside the circle through a, b, c when (a, b, c) is counter-clockwise."""
    m = np.array(
        [
            [a[0] - d[0], a[1] - d[1], (a[0] - d[0]) ** 2 + (a[1] - d[1]) ** 2],
            [b[0] - d[0], b[1] - d[1], (b[0] - d[0]) ** 2 + (b[1] - d[1]) ** 2],
            [c[0] - d[0], c[1] - d[1], (c[0] - d[0]) ** 2 + (c[1] - d[1]) ** 2],
        ]
    )
    return float(np.linalg.det(m))


def delaunay_edges(pts):
    """
    Empty-circumcircle triangulation over all vertex triples (O(N^4)); returns (edges, triangles, margin) where margin is
    the smallest |orientation| and |in-circle determinant| met (general-position certificate).
    """
    n = len(pts)
    tris, margin_o, margin_c = [], np.inf, np.inf
    for i, j, k in itertools.combinations(range(n), 3):
        o = _orient(pts[i], pts[j], pts[k])
        margin_o = min(margin_o, abs(o))
        if o == 0.0:
            continue
        a, b, c = (pts[i], pts[j], pts[k]) if o > 0 else (pts[i], pts[k], pts[j])
        empty = True
        for l in range(n):
            if l in (i, j, k):
                continue
            d = _incircle(a, b, c, pts[l])
            margin_c = min(margin_c, abs(d))
            if d > 0:
                empty = False
        if empty:
            tris.append((i, j, k))
    edges = set()
    for i, j, k in tris:
        edges.update([(i, j), (i, k), (j, k)])
    return sorted(edges), tris, (margin_o, margin_c)


DEL_MENUS = ["quad5", "pent6", "hex7", "thin8", "rand8", "lat9", "fix9", "rand10"]


def _del_base(menu, r):
    if menu == "quad5":
        return np.array([[2.0, -2.0], [2.0, 2.0], [-2.0, -2.0], [-2.0, 2.0], [0.0, 0.0]])
    if menu in ("pent6", "hex7"):
        m = 5 if menu == "pent6" else 6
        ang = 0.3 + 2 * np.pi * np.arange(m) / m
        return np.concatenate([np.stack([2.0 * np.sin(ang), 2.0 * np.cos(ang)], axis=1), [[0.0, 0.0]]])
    if menu == "thin8":
        x = np.array([-2.0, -0.7, 0.6, 2.0])
        return np.concatenate([np.stack([0.0 * x + 0.35, x], axis=1), np.stack([0.0 * x - 0.35, x + 0.3], axis=1)])
    if menu == "lat9":
        return np.array([[y, x] for y in (2.0, 0.0, -2.0) for x in (-2.0, 0.0, 2.0)])
    if menu == "fix9":
        return fix_inv.DEL_VERTS.copy()
    if menu == "rand8":
        return r.uniform(-2.0, 2.0, size=(8, 2))
    if menu == "rand10":
        return r.uniform(-2.0, 2.0, size=(10, 2))
    raise ValueError(menu)


def delaunay_vertices(menu, variant, seed):
    """Deterministic vertex set in general position (re-drawn with the next salt until the margins hold)."""
    for attempt in range(200):
        r = dom.rng(seed, "c07del", menu, variant, attempt)
        base = _del_base(menu, r)
        pts = base + r.uniform(-0.15, 0.15, size=base.shape)
        edges, tris, (mo, mc) = delaunay_edges(pts)
        if mo > 1e-3 and mc > 1e-4:
            return pts, edges
    raise RuntimeError("no general-position vertex set for %s" % menu)


KERNEL_VERTEX_MENUS = [["lattice", 16], ["lattice", 25], ["lattice", 36], ["uniform", 20], ["uniform", 30], ["ring", 13], ["pairs", 16]]
KERNEL_VERTEX_MENUS_THOROUGH = KERNEL_VERTEX_MENUS + [["lattice", 49], ["uniform", 40], ["ring", 25], ["pairs", 24]]


def kernel_vertices(menu, n, seed, s):
    """
    Vertex set of `n` points for the kernel-scheme family 'K', laid over the bounding box of the source-plane grid `s`:
    jittered lattice, uniform random, ring + centre, and pairs of nearly coincident vertices (separation 1e-5 of the field,
    where the covariance is nearly singular whatever the scale). Only the positions enter the kernel schemes.
    """
    r = dom.rng(seed, "c07kpts", menu, n)
    if menu == "lattice":
        m = int(round(np.sqrt(n)))
        g = (np.arange(m) + 0.5) / m - 0.5
        p = np.array([[y, x] for y in g[::-1] for x in g]) + r.uniform(-0.2, 0.2, size=(m * m, 2)) / m
    elif menu == "uniform":
        p = r.uniform(-0.5, 0.5, size=(n, 2))
    elif menu == "ring":
        a = 2 * np.pi * np.arange(n - 1) / (n - 1) + 0.1
        p = np.concatenate([0.5 * np.stack([np.sin(a), np.cos(a)], axis=1), [[0.01, -0.02]]]) + r.uniform(-0.01, 0.01, size=(n, 2))
    elif menu == "pairs":
        h = n // 2
        q = r.uniform(-0.5, 0.5, size=(h, 2))
        p = np.concatenate([q, q + 1e-5 * r.uniform(-1, 1, size=(h, 2))])
    else:
        raise ValueError(menu)
    lo, hi = s.min(axis=0), s.max(axis=0)
    return (lo + hi) / 2.0 + p * (hi - lo)


def pair_matrix(n, edges, pairw, ridge=1e-8):
    """sum over unordered neighbouring pairs of pairw(i,j) * (e_i - e_j)(e_i - e_j)^T + ridge * I."""
    H = np.zeros((n, n))
    for (i, j) in edges:
        w = pairw(i, j)
        H[i, i] += w
        H[j, j] += w
        H[i, j] -= w
        H[j, i] -= w
    H[np.arange(n), np.arange(n)] += ridge
    return H


# ----------------------------------------------------------------------------- builders


def adapt_values(kind, n, seed):
    r = dom.rng(seed, "c07adapt", kind, n)
    k = np.arange(n, dtype=float)
    if kind == "pos":
        return 0.2 + (k * 7 % 11) / 3.0 + 0.1 * r.uniform(size=n)
    if kind == "zeros":
        a = 0.5 + (k * 5 % 7) / 2.0 + 0.1 * r.uniform(size=n)
        a[(np.arange(n) * 3 + 1) % 2 == 0] = 0.0
        if not (a > 0).any():
            a[0] = 1.0
        return a
    if kind == "peak":
        a = 1e-3 * (1.0 + (k * 3 % 5)) + 1e-4 * r.uniform(size=n)
        a[(2 * n) // 3] = 1e3
        return a
    raise ValueError(kind)


def build_mapper(plane, mesh, adapt, seed, regularization=None):
    """Returns (fx, mapper, params, edges, spacing): edges/params from the independent model of the mesh."""
    import autoarray as aa

    maskname, sub, srckind = plane
    fx = fix_inv.make_dataset(FRAME, KSHAPE, mask_bits(maskname), seed=seed, sub=sub)
    osr, s = fix_inv.source_plane(fx, srckind, seed)
    sg = aa.Grid2DIrregular(values=s)
    ad = None
    if adapt != "-":
        ad = aa.Array2D(values=adapt_values(adapt, fx["n"], seed), mask=fx["mask"])
    ext = (np.ptp(s[:, 0]) + np.ptp(s[:, 1])) / 2.0
    if mesh[0] == "rect":
        R, C = mesh[1], mesh[2]
        mg = aa.Mesh2DRectangular.overlay_grid(shape_native=(R, C), grid=sg)
        n, edges = R * C, rect_edges(R, C)
        spacing = max(ext, 1.0) / ((R + C) / 2.0)
    elif mesh[0] == "pts":
        # vertex sets of the 'K' family: only the vertex positions matter to the kernel schemes, so no adjacency is modelled
        pts, edges = kernel_vertices(mesh[1], mesh[2], seed, s), None
        mg = aa.Mesh2DDelaunay(values=aa.Grid2DIrregular(values=pts))
        n = len(pts)
        spacing = max(ext, 1.0) / np.sqrt(n)
    else:
        pts, edges = delaunay_vertices(mesh[1], mesh[2], seed)
        scale = max(1.0, np.abs(s).max() / 2.0)
        pts = pts * scale  # uniform scaling keeps the triangulation
        mg = aa.Mesh2DDelaunay(values=aa.Grid2DIrregular(values=pts))
        n = len(pts)
        spacing = 4.0 * scale / np.sqrt(n)
    mapper = aa.Mapper(
        mapper_grids=aa.MapperGrids(mask=fx["mask"], source_plane_data_grid=sg, source_plane_mesh_grid=mg, adapt_data=ad),
        over_sampler=osr, regularization=regularization,
    )
    return fx, mapper, n, edges, spacing


def make_scheme(aa, name, params, spacing):
    if name in ("Constant", "Zeroth", "ConstantSplit"):
        return getattr(aa.reg, name)(coefficient=params[0])
    if name == "ConstantZeroth":
        return aa.reg.ConstantZeroth(coefficient_neighbor=params[0], coefficient_zeroth=params[1])
    if name in ("AdaptiveBrightness", "AdaptiveBrightnessSplit"):
        return getattr(aa.reg, name)(inner_coefficient=params[0], outer_coefficient=params[1], signal_scale=params[2])
    if name == "BrightnessZeroth":
        return aa.reg.BrightnessZeroth(coefficient=params[0], signal_scale=params[1])
    if name in ("GaussianKernel", "ExponentialKernel"):
        return getattr(aa.reg, name)(coefficient=params[0], scale=params[1] * spacing)
    raise ValueError(name)


# ----------------------------------------------------------------------------- enumeration


def scheme_menu(tier, is_del):
    """[(scheme, params)] - every parameter tuple of the value menus."""
    out = []
    for c in COEFFS + SMALL_COEFFS:
        out.append(("Constant", [c]))
    for c in COEFFS:
        out.append(("Zeroth", [c]))
    for c in SMALL_COEFFS:
        out.append(("ConstantZeroth", [c, 1.0]))
    pairs = list(itertools.product(COEFFS, COEFFS))
    cz = pairs if tier == "thorough" else [(0.1, 7.0), (1.0, 1.0), (7.0, 0.1), (7.0, 7.0)]
    for a, b in cz:
        out.append(("ConstantZeroth", [a, b]))
    for name in ("GaussianKernel", "ExponentialKernel"):
        for c in COEFFS:
            for s in KSCALES:
                out.append((name, [c, s]))
    if is_del:
        for c in COEFFS:
            out.append(("ConstantSplit", [c]))
    io = pairs if tier == "thorough" else [(0.1, 7.0), (7.0, 0.1), (1.0, 1.0), (1.0, 7.0), (7.0, 7.0)]
    for name in ("AdaptiveBrightness",) + (("AdaptiveBrightnessSplit",) if is_del else ()):
        for a, b in io:
            for ss in SIGNAL_SCALES:
                out.append((name, [a, b, ss]))
    for c in COEFFS:
        for ss in SIGNAL_SCALES:
            out.append(("BrightnessZeroth", [c, ss]))
    return out


ALL_PLANES = [[m, sub, src] for m in ("full", "ring", "ragged", "two", "small") for sub in (1, 2) for src in ("identity", "warp")]


def planes_for(tier, adaptive):
    if tier == "thorough":
        return ALL_PLANES if adaptive else [ALL_PLANES[0], ALL_PLANES[7], ALL_PLANES[9], ALL_PLANES[14]]
    if adaptive:
        return [["full", 1, "identity"], ["ring", 2, "warp"], ["ragged", 2, "identity"], ["two", 1, "warp"]]
    return [["full", 1, "identity"], ["ragged", 2, "warp"]]


KINDS = fix_inv.OBJ_KINDS


def block_lists():
    out = []
    for L in (1, 2, 3):
        for kinds in itertools.permutations(KINDS, L):
            for regs in itertools.product((True, False), repeat=L):
                out.append([list(kinds), list(regs)])
    return out


KFIELD_SCALES = [0.1, 0.2, 0.5, 1.0, 2.0, 5.0, 10.0]  # kernel scale / field size of the 'K' family


def repeat_lists(tier):
    """
    [labels, regs]: every ordered list of 2..3 instance labels over the five kinds in which at least one instance occurs
    more than once, x every on/off pattern of the DISTINCT instances (one instance has one regularization); label "k'" is a
    second, separately built instance of kind k carrying the opposite on/off state of "k" (same kind, not the same object).
    thorough adds every list of 4 over two instances of {rectA, del, func, funcS} that uses both.
    """
    out = []

    def add(labels):
        distinct = sorted(set(labels), key=labels.index)
        free = [d for d in distinct if not d.endswith("'")]
        for bits in itertools.product((True, False), repeat=len(free)):
            on = dict(zip(free, bits))
            for d in distinct:
                if d.endswith("'"):
                    on[d] = not on[d[:-1]]
            out.append([list(labels), [on[l] for l in labels]])

    for a in KINDS:
        add([a, a])
    for a in KINDS:
        add([a, a, a])
        for b in KINDS:
            if b != a:
                for labels in ([a, a, b], [a, b, a], [b, a, a]):
                    add(labels)
    for a in KINDS:
        for labels in ([a, a, a + "'"], [a, a + "'", a], [a + "'", a, a]):
            add(labels)
    if tier == "thorough":
        four = ("rectA", "del", "func", "funcS")
        for a, b in itertools.combinations(four, 2):
            for pat in itertools.product((0, 1), repeat=4):
                if 0 < sum(pat) < 4:
                    add([(a, b)[k] for k in pat])
    return out


def cases(tier, seed):
    rs = (3, 4, 5, 6) if tier == "quick" else (3, 4, 5, 6, 7)
    meshes = [["rect", R, C] for R in rs for C in rs]
    meshes.sort(key=lambda m: (m[1] * m[2], m[1]))
    variants = (0, 1) if tier == "quick" else (0, 1, 2)
    dmeshes = [["del", name, var] for var in variants for name in DEL_MENUS]
    for mesh in meshes + dmeshes:
        for scheme, params in scheme_menu(tier, mesh[0] == "del"):
            adaptive = scheme in ADAPTIVE
            for plane in planes_for(tier, adaptive):
                for adapt in (ADAPT_KINDS if adaptive else ["-"]):
                    yield ["S", plane, mesh, scheme, params, adapt, seed]
    # large fine meshes for the kernel schemes only (extent >> kernel scale: a covariance that is truncated or thresholded at
    # several scale lengths stops being positive definite only when the mesh is many scale lengths across)
    big = [["rect", 12, 12], ["rect", 9, 14]] if tier == "quick" else [["rect", 12, 12], ["rect", 9, 14], ["rect", 14, 14], ["rect", 16, 10]]
    for mesh in big:
        for name in ("GaussianKernel", "ExponentialKernel"):
            for c in (1.0,):
                for sc in (0.7, 1.0, 1.5):
                    yield ["S", ["full", 1, "identity"], mesh, name, [c, sc], "-", seed]
    # kernel schemes from well separated to strongly overlapping kernels (scale = f x field): beyond f ~ 0.3 the smallest
    # eigenvalue of the bare kernel matrix drops below the documented 1e-8 ridge, which is then what keeps the matrix PD
    krs = (5, 6, 7)
    kmeshes = [["rect", R, C] for R in krs for C in krs]
    kmeshes += [["pts", m, n] for m, n in (KERNEL_VERTEX_MENUS if tier == "quick" else KERNEL_VERTEX_MENUS_THOROUGH)]
    kplanes = [["ragged", 2, "warp"]] if tier == "quick" else [["ragged", 2, "warp"], ["full", 1, "identity"], ["two", 1, "warp"]]
    for plane in kplanes:
        for mesh in kmeshes:
            for name in ("GaussianKernel", "ExponentialKernel"):
                for c in COEFFS:
                    for f in KFIELD_SCALES:
                        if tier == "quick" and c != 1.0 and f not in (0.5, 5.0):
                            continue
                        yield ["K", plane, mesh, name, [c, f], seed]
    bmasks = ["full", "ragged"] if tier == "quick" else ["full", "ragged", "two"]
    for ol in block_lists():
        for mname in bmasks:
            for wt in (False, True):
                yield ["B", mname, ol, wt, seed]
    # ordered lists in which the SAME instance occurs more than once
    mmasks = ["ragged"] if tier == "quick" else ["ragged", "full", "two"]
    for mname in mmasks:
        for ol in repeat_lists(tier):
            for wt in (False, True):
                yield ["M", mname, ol, wt, seed]
    # two-step histories (each one lives inside ONE case)
    hmasks = ["ragged"] if tier == "quick" else ["ragged", "full", "two"]
    for mname in hmasks:
        for kind in KINDS:
            for trans in TRANSITIONS:
                for layout in LAYOUTS:
                    for wt in (False, True):
                        yield ["R", mname, kind, trans, layout, wt, seed]
    for mname in hmasks:
        for ol in preload_lists():
            for wt in (False, True):
                yield ["P", mname, ol, wt, seed]
    uplanes = [["ragged", 2, "warp"]] if tier == "quick" else [["ragged", 2, "warp"], ["full", 1, "identity"]]
    for plane in uplanes:
        for scheme, params, adapt in REUSE_SCHEMES:
            for ma, mb in (REUSE_PAIRS_DEL if scheme in SPLIT else REUSE_PAIRS):
                yield ["U", plane, ma, mb, scheme, params, adapt, seed]


TRANSITIONS = ["S-S", "S-N", "N-S"]  # scheme before the first read -> scheme assigned afterwards (N = None)
LAYOUTS = ["same", "copy", "copy-pair"]

REUSE_PAIRS = [
    [["rect", 3, 3], ["rect", 3, 5]], [["rect", 3, 3], ["rect", 5, 3]], [["rect", 3, 3], ["rect", 4, 4]],
    [["rect", 3, 3], ["del", "fix9", 0]],  # equal size, different adjacency
    [["rect", 3, 5], ["rect", 5, 3]],      # equal size, different adjacency
    [["rect", 4, 4], ["rect", 3, 3]], [["del", "hex7", 0], ["rect", 3, 3]],
    [["del", "quad5", 0], ["del", "rand8", 0]], [["del", "lat9", 0], ["del", "fix9", 1]],
]
REUSE_PAIRS_DEL = [p for p in REUSE_PAIRS if p[0][0] == "del" and p[1][0] == "del"] + [[["del", "rand8", 1], ["del", "pent6", 0]]]
REUSE_SCHEMES = [
    ["Constant", [1.0], "-"], ["Constant", [7.0], "-"], ["Zeroth", [1.0], "-"], ["ConstantZeroth", [0.1, 7.0], "-"],
    ["GaussianKernel", [1.0, 0.7], "-"], ["GaussianKernel", [7.0, 1.0], "-"],
    ["ExponentialKernel", [1.0, 0.7], "-"], ["ExponentialKernel", [7.0, 1.0], "-"],
    ["AdaptiveBrightness", [0.1, 7.0, 1.0], "pos"], ["AdaptiveBrightness", [7.0, 0.1, 2.0], "peak"],
    ["BrightnessZeroth", [1.0, 0.5], "zeros"],
    ["ConstantSplit", [1.0], "-"], ["AdaptiveBrightnessSplit", [1.0, 7.0, 0.5], "pos"],
]


def preload_lists():
    out = []
    for kinds in itertools.permutations(KINDS, 2):
        for regs in ([True, True], [True, False], [False, True]):
            out.append([list(kinds), regs])
    out += [
        [["rectA", "func", "del"], [True, False, True]], [["funcS", "rectB", "rectA"], [False, True, True]],
        [["del", "rectA", "rectB"], [True, True, True]], [["func", "rectA", "funcS"], [False, True, False]],
    ]
    return out


# ----------------------------------------------------------------------------- oracles


def _absmax(a):
    a = np.asarray(a, dtype=float)
    return float(np.max(np.abs(a))) if a.size else 0.0


def entry_close(H, ref, rtol=1e-10):
    """entrywise: |H - ref| <= rtol*|ref| + 1e-14*max|ref| (sums of <= ~20 same-sign terms: observed agreement ~1e-16)."""
    if H.shape != ref.shape:
        return False
    return bool(np.all(np.abs(H - ref) <= rtol * np.abs(ref) + 1e-14 * max(_absmax(ref), 1e-300)))


def general_laws(v, name, H, n, strict, sfx=""):
    """size, finiteness, symmetry, PSD and (strict) PD. Returns True when H is usable for the further checks."""
    ok = v.ok(isinstance(H, np.ndarray) and H.ndim == 2 and H.shape == (n, n), "%s:size%s" % (name, sfx),
              lambda: "matrix shape %s, linear object has %d parameters" % (getattr(H, "shape", None), n))
    if not ok:
        return False
    if not v.ok(bool(np.all(np.isfinite(H))), "%s:not-finite%s" % (name, sfx), "non-finite entries"):
        return False
    sc = max(_absmax(H), 1e-300)
    asym = _absmax(H - H.T) / sc
    ev = np.linalg.eigvalsh((H + H.T) / 2.0)
    nrm = max(abs(ev[0]), abs(ev[-1]))
    # the kernel schemes return a numerically INVERTED covariance matrix: its round-off asymmetry scales with the conditioning
    # of that inversion (observed <= 0.1*eps*cond), so the symmetry demand on them is condition-aware; assembled schemes: 1e-12
    symtol = 1e-12
    if name in ("GaussianKernel", "ExponentialKernel") and ev[0] > 0:
        symtol = max(1e-12, 20.0 * 2.2e-16 * (ev[-1] / ev[0]))
    v.ok(asym <= symtol, "%s:not-symmetric%s" % (name, sfx), lambda: "max|H-H^T|/max|H| = %.3e (tolerance %.1e)" % (asym, symtol))
    v.ok(ev[0] >= -1e-10 * nrm, "%s:not-psd%s" % (name, sfx), lambda: "min eigenvalue %.6e, ||H||=%.3e" % (ev[0], nrm))
    if strict:
        try:
            np.linalg.cholesky(H)
            chol = True
        except np.linalg.LinAlgError:
            chol = False
        sign, _ = np.linalg.slogdet(H)
        v.ok(chol and sign > 0, "%s:not-pd%s" % (name, sfx),
             lambda: "cholesky %s, slogdet sign %s, min eigenvalue %.6e, ||H||=%.3e" % ("ok" if chol else "FAILED", sign, ev[0], nrm))
    return True


def logdet_tol(H):
    ev = np.linalg.eigvalsh((H + H.T) / 2.0)
    lo = max(ev[0], 1e-300)
    cond = max(abs(ev[-1]), abs(ev[0])) / lo
    ld = np.linalg.slogdet(H)[1]
    return ld, 1e-8 * (1.0 + abs(ld)) + 20.0 * np.finfo(float).eps * cond


def stated_matrix(v, name, params, H, w, n, edges, sfx=""):
    """The stated / documented matrices, entrywise (class <Scheme>:matrix<sfx>)."""
    cls = "%s:matrix%s" % (name, sfx)
    if name == "Constant":
        c2 = params[0] ** 2
        ref = pair_matrix(n, edges, lambda i, j: c2)
        v.ok(entry_close(H, ref), cls, lambda: "max|H - (c^2 L + 1e-8 I)| = %s (c=%s)" % (dom.maxdiff(H, ref), params[0]))
        rs = H.sum(axis=1)
        v.ok(bool(np.all(np.abs(rs - 1e-8) <= 1e-11 * (1.0 + _absmax(H)))), cls,
             lambda: "row sums (x = 1: x^T H x = n*1e-8) are %s" % rs[:6])
    elif name == "ConstantZeroth":
        cn2, cz2 = params[0] ** 2, params[1] ** 2
        ref = pair_matrix(n, edges, lambda i, j: cn2, ridge=1e-8 + cz2)
        v.ok(entry_close(H, ref), cls, lambda: "max|H - (cn^2 L + (cz^2+1e-8) I)| = %s" % dom.maxdiff(H, ref))
    elif name == "Zeroth":
        c2 = params[0] ** 2
        off = H - np.diag(np.diag(H))
        d = np.diag(H)
        okd = bool(np.all(np.abs(d - c2) <= 1e-10 * c2) or np.all(np.abs(d - c2 - 1e-8) <= 1e-10 * c2))
        v.ok(okd and not off.any(), cls, lambda: "diag %s (want %s [+1e-8]), max off-diagonal %s" % (d[:5], c2, _absmax(off)))
    elif name == "BrightnessZeroth":
        ref = np.diag(w ** 2) if w.shape == (n,) else None
        v.ok(ref is not None and entry_close(H, ref), cls, lambda: "max|H - diag(w^2)| = %s" % dom.maxdiff(H, ref))
    elif name == "AdaptiveBrightness":
        if w.shape == (n,):
            w2 = w ** 2
            ref = pair_matrix(n, edges, lambda i, j: w2[i] + w2[j])
            v.ok(entry_close(H, ref), cls,
                 lambda: "max|H - sum_pairs (w_i^2+w_j^2)(e_i-e_j)(e_i-e_j)^T - 1e-8 I| = %s, max|H| = %s" % (dom.maxdiff(H, ref), _absmax(H)))
            rs = H.sum(axis=1)
            v.ok(bool(np.all(np.abs(rs - 1e-8) <= 1e-11 * (1.0 + _absmax(H)))), cls,
                 lambda: "row sums (x = 1: x^T H x = n*1e-8) are %s" % rs[:6])


def run_scheme(v, case):
    import autoarray as aa

    _, plane, mesh, name, params, adapt, seed = case
    fx, mapper, n, edges, spacing = build_mapper(plane, mesh, adapt, seed)
    scheme = make_scheme(aa, name, params, spacing)
    v.ok(int(mapper.params) == n, "%s:size" % name, lambda: "mapper.params=%s, mesh has %d cells/vertices" % (mapper.params, n))

    H = scheme.regularization_matrix_from(linear_obj=mapper)
    H = np.array(H, dtype=float) if isinstance(H, np.ndarray) else H
    w = np.array(scheme.regularization_weights_from(linear_obj=mapper), dtype=float)
    v.ok(w.shape == (n,) and bool(np.all(np.isfinite(w))), "%s:weights" % name, lambda: "weights shape %s: %s" % (w.shape, w[:8]))
    varied = w.shape == (n,) and n > 1 and float(np.ptp(w)) > 1e-6 * max(1.0, _absmax(w))
    v.nontrivial = (mesh[0] == "del") or (mesh[1] != mesh[2]) or (name in ADAPTIVE and varied)
    v.outcome = "S/%s/%s/%s" % (name, mesh[0] if mesh[0] == "del" else "rect%s" % ("sq" if mesh[1] == mesh[2] else "ns"),
                                "varied-w" if varied else "flat-w")
    strict = name in STRICT
    if not general_laws(v, name, H, n, strict):
        return

    stated_matrix(v, name, params, H, w, n, edges)

    # ---- through a real inversion: single block and the log-determinant the evidence uses
    scheme2 = make_scheme(aa, name, params, spacing)
    fx2, mapper2, _, _, _ = build_mapper(plane, mesh, adapt, seed, regularization=scheme2)
    inv = aa.Inversion(dataset=fx2["ds"], linear_obj_list=[mapper2], settings=fix_inv.settings(aa, False))
    Hi = np.array(inv.regularization_matrix, dtype=float)
    v.ok(dom.exact(Hi, H), "inversion:block-placement", lambda: "single %s mapper: inversion.regularization_matrix differs from the scheme's matrix by %s" % (name, dom.maxdiff(Hi, H)))
    Hr = np.array(inv.regularization_matrix_reduced, dtype=float)
    v.ok(dom.exact(Hr, H), "inversion:reduced", lambda: "single regularized mapper: reduced matrix differs by %s" % dom.maxdiff(Hr, H))
    if strict:
        ld_ref, tol = logdet_tol(H)
        try:
            ld = inv.log_det_regularization_matrix_term
            ld = float(np.real(ld))
        except Exception as e:  # the property says the log-determinant exists
            v.fail("%s:log-det" % name, "log_det_regularization_matrix_term raised %r" % (e,))
            return
        v.ok(np.isfinite(ld) and abs(ld - ld_ref) <= tol, "%s:log-det" % name,
             lambda: "log_det_regularization_matrix_term = %.12g, slogdet = %.12g, tol = %.3g" % (ld, ld_ref, tol))


def block_scheme(aa, kind, pos):
    if kind == "rectA":
        return aa.reg.Constant(coefficient=0.7 + 0.3 * pos)
    if kind == "rectB":
        return aa.reg.ConstantZeroth(coefficient_neighbor=1.3, coefficient_zeroth=0.4 + pos)
    if kind == "del":
        return aa.reg.ConstantSplit(coefficient=0.9 + 0.2 * pos) if pos % 2 == 0 else aa.reg.Constant(coefficient=1.1 + pos)
    if kind == "func":
        return aa.reg.Zeroth(coefficient=2.0 + pos)
    if kind == "funcS":
        return aa.reg.Constant(coefficient=0.5 + pos)
    raise ValueError(kind)


def _block_objs(aa, mname, kinds, regs, seed):
    fx = fix_inv.make_dataset(FRAME, KSHAPE, mask_bits(mname), seed=seed, sub=1)
    objs = []
    for pos, (k, r) in enumerate(zip(kinds, regs)):
        o = fix_inv.make_obj(fx, k, reg=False, seed=seed)
        if r:
            o.regularization = block_scheme(aa, k, pos)
        objs.append(o)
    return fx, objs


PARAMS = {"rectA": 9, "rectB": 12, "del": 9, "func": 2, "funcS": 3}


def run_blocks(v, case):
    import autoarray as aa

    _, mname, (kinds, regs), wt, seed = case
    v.nontrivial = len(kinds) >= 2 and any(regs) and not all(regs)
    v.outcome = "B/L%d/%s/%s" % (len(kinds), "".join("r" if r else "u" for r in regs), "wt" if wt else "map")
    # expected blocks from independently built twin objects (never the objects handed to the inversion)
    _, twins = _block_objs(aa, mname, kinds, regs, seed)
    widths = [PARAMS[k] for k in kinds]
    blocks = []
    for o, k, r, wd in zip(twins, kinds, regs, widths):
        v.ok(int(o.params) == wd, "inversion:block-placement", lambda: "%s reports %s parameters, expected %d" % (k, o.params, wd))
        if r:
            b = np.array(o.regularization.regularization_matrix_from(linear_obj=o), dtype=float)
            v.ok(b.shape == (wd, wd), "%s:size" % type(o.regularization).__name__, lambda: "%s block shape %s, params %d" % (k, b.shape, wd))
            blocks.append(b)
        else:
            blocks.append(None)
    fx, objs = _block_objs(aa, mname, kinds, regs, seed)
    inv = aa.Inversion(dataset=fx["ds"], linear_obj_list=objs, settings=fix_inv.settings(aa, wt))
    # first read: reduced, then full; the returned objects are HELD (not copied) for the after-solve comparison below
    held_r = inv.regularization_matrix_reduced
    held = inv.regularization_matrix
    H = np.array(held, dtype=float)
    P = sum(widths)
    if not v.ok(H.shape == (P, P), "inversion:block-placement", lambda: "regularization_matrix shape %s, total parameters %d" % (H.shape, P)):
        return
    covered = np.zeros((P, P), dtype=bool)
    off = 0
    for k, r, wd, b in zip(kinds, regs, widths, blocks):
        sl = slice(off, off + wd)
        covered[sl, sl] = True
        got = H[sl, sl]
        if r:
            if b.shape == (wd, wd):
                v.ok(dom.exact(got, b), "inversion:block-placement",
                     lambda: "block of object %s at [%d:%d] differs from that object's own matrix by %s" % (k, off, off + wd, dom.maxdiff(got, b)))
        else:
            v.ok(not got.any(), "inversion:zero-block", lambda: "unregularized %s at [%d:%d] has max|block| = %s" % (k, off, off + wd, _absmax(got)))
        off += wd
    v.ok(not H[~covered].any(), "inversion:block-placement", lambda: "non-zero entries outside the diagonal blocks, max %s" % _absmax(H[~covered]))
    keep = []
    off = 0
    for r, wd in zip(regs, widths):
        if r:
            keep += list(range(off, off + wd))
        off += wd
    Hr = np.array(held_r, dtype=float)
    ref = H[np.ix_(keep, keep)] if keep else np.zeros((0, 0))
    v.ok(Hr.shape == ref.shape and dom.exact(Hr, ref), "inversion:reduced",
         lambda: "reduced shape %s vs %s (regularized parameters %d of %d), maxdiff %s" % (Hr.shape, ref.shape, len(keep), P, dom.maxdiff(Hr, ref)))
    # the evidence's log-determinant is that of the regularized blocks only (all block schemes used here are PD)
    if keep and all(b is None or b.shape[0] == b.shape[1] for b in blocks):
        ld_ref, tol = 0.0, 0.0
        for b in blocks:
            if b is not None:
                l, t = logdet_tol(b)
                ld_ref, tol = ld_ref + l, tol + t
        try:
            ld = float(np.real(inv.log_det_regularization_matrix_term))
            v.ok(np.isfinite(ld) and abs(ld - ld_ref) <= tol, "inversion:log-det",
                 lambda: "log_det_regularization_matrix_term = %.12g, sum of slogdet over regularized blocks = %.12g, tol %.3g" % (ld, ld_ref, tol))
        except Exception as e:
            v.fail("inversion:log-det", "log_det_regularization_matrix_term raised %r" % (e,))

    # ---- a regularized block that is only positive SEMI-definite next to unregularized objects: BrightnessZeroth gives the brightest
    # mesh pixel the weight exactly 0, so its block has an all-zero row / column that is nevertheless a regularized parameter. The
    # reduced matrix must drop exactly the parameters of the objects WITHOUT regularization (by position, not by value).
    if not all(regs) and any(r and k in ("rectA", "rectB", "del") for k, r in zip(kinds, regs)):
        fz, oz = _block_objs(aa, mname, kinds, regs, seed)
        _, tz = _block_objs(aa, mname, kinds, regs, seed)
        for lst in (oz, tz):
            for pos, (o, k, r) in enumerate(zip(lst, kinds, regs)):
                if r and k in ("rectA", "rectB", "del"):
                    o.regularization = aa.reg.BrightnessZeroth(coefficient=0.8 + 0.1 * pos, signal_scale=1.0)
        bz = [np.array(o.regularization.regularization_matrix_from(linear_obj=o), dtype=float) if r else None for o, r in zip(tz, regs)]
        if all(b is None or b.shape == (wd, wd) for b, wd in zip(bz, widths)):
            Ez = expected_blocks(widths, bz)
            zero_rows = int(sum(int((~b.any(axis=0)).sum()) for b in bz if b is not None))
            v.outcome += "/semidef-zero-rows" if zero_rows else "/semidef"
            invz = aa.Inversion(dataset=fz["ds"], linear_obj_list=oz, settings=fix_inv.settings(aa, wt))
            Hzr = np.array(invz.regularization_matrix_reduced, dtype=float)
            Hz = np.array(invz.regularization_matrix, dtype=float)
            v.ok(Hz.shape == Ez.shape and dom.exact(Hz, Ez), "inversion:block-placement:semidefinite-block",
                 lambda: "BrightnessZeroth blocks: regularization_matrix differs from the block-diagonal reference by %s" % (dom.maxdiff(Hz, Ez) if Hz.shape == Ez.shape else Hz.shape,))
            Ezr = Ez[np.ix_(keep, keep)]
            v.ok(Hzr.shape == Ezr.shape and dom.exact(Hzr, Ezr), "inversion:reduced:semidefinite-block",
                 lambda: "BrightnessZeroth blocks (%d exactly-zero rows inside regularized blocks): reduced shape %s, expected %s = the %d regularized parameters of %d"
                         % (zero_rows, Hzr.shape, Ezr.shape, len(keep), P))

    # ---- read order: the same block-diagonal matrix must be reported after F+H and the solution have been evaluated, and
    # the arrays handed out at the first read must still hold it (F+H must not be accumulated into the cached H)
    if any(b is not None and b.shape != (wd, wd) for b, wd in zip(blocks, widths)):
        return
    E = expected_blocks(widths, blocks)
    Er = E[np.ix_(keep, keep)] if keep else np.zeros((0, 0))
    try:
        inv.curvature_reg_matrix
        inv.reconstruction
        solved = "solved"
    except aa.exc.InversionException:
        solved = "solver-exception"
    v.outcome += "/" + solved
    for what, got, want, cls in (
        ("regularization_matrix_reduced re-read", inv.regularization_matrix_reduced, Er, "inversion:reduced:after-solve"),
        ("regularization_matrix re-read", inv.regularization_matrix, E, "inversion:regularization_matrix:after-solve"),
        ("array obtained from regularization_matrix_reduced at the first read", held_r, Er, "inversion:reduced:after-solve"),
        ("array obtained from regularization_matrix at the first read", held, E, "inversion:regularization_matrix:after-solve"),
    ):
        g = np.array(got, dtype=float)
        v.ok(g.shape == want.shape and dom.exact(g, want), cls,
             lambda: "%s after curvature_reg_matrix/reconstruction (%s): shape %s vs %s, differs from the block-diagonal matrix by %s"
             % (what, solved, g.shape, want.shape, dom.maxdiff(g, want) if g.shape == want.shape else "n/a"))


def expected_blocks(widths, blocks):
    """Block-diagonal matrix in object order; None = all-zero block."""
    P = sum(widths)
    E = np.zeros((P, P))
    off = 0
    for wd, b in zip(widths, blocks):
        if b is not None:
            E[off:off + wd, off:off + wd] = b
        off += wd
    return E


def _keep(widths, regs):
    keep, off = [], 0
    for r, wd in zip(regs, widths):
        if r:
            keep += list(range(off, off + wd))
        off += wd
    return keep


def _twin_block(aa, fx_args, kind, scheme):
    """The scheme's own matrix on an independently built twin of the object (never the object under test)."""
    if scheme is None:
        return None
    mname, seed = fx_args
    fx = fix_inv.make_dataset(FRAME, KSHAPE, mask_bits(mname), seed=seed, sub=1)
    o = fix_inv.make_obj(fx, kind, reg=False, seed=seed)
    return np.array(scheme.regularization_matrix_from(linear_obj=o), dtype=float)


def run_preload(v, case):
    """One Preloads(regularization_matrix=H) object shared by two successive inversions: H must stay bitwise unchanged."""
    import autoarray as aa

    _, mname, (kinds, regs), wt, seed = case
    v.nontrivial = True
    v.outcome = "P/L%d/%s/%s" % (len(kinds), "".join("r" if r else "u" for r in regs), "wt" if wt else "map")
    _, twins = _block_objs(aa, mname, kinds, regs, seed)
    widths = [PARAMS[k] for k in kinds]
    blocks = [np.array(o.regularization.regularization_matrix_from(linear_obj=o), dtype=float) if r else None for o, r in zip(twins, regs)]
    E = expected_blocks(widths, blocks)
    keep = _keep(widths, regs)
    Er = E[np.ix_(keep, keep)]
    pl = aa.Preloads(regularization_matrix=E.copy())
    handed = pl.regularization_matrix
    recs = []
    for rnd in (1, 2):
        fx, objs = _block_objs(aa, mname, kinds, regs, seed)
        inv = aa.Inversion(dataset=fx["ds"], linear_obj_list=objs, settings=fix_inv.settings(aa, wt), preloads=pl)
        H = np.array(inv.regularization_matrix, dtype=float)
        Hr0 = np.array(inv.regularization_matrix_reduced, dtype=float)
        v.ok(H.shape == E.shape and dom.exact(H, E), "inversion:regularization_matrix:preloaded",
             lambda: "inversion %d with the shared preload: regularization_matrix differs from the block-diagonal matrix by %s" % (rnd, dom.maxdiff(H, E) if H.shape == E.shape else H.shape))
        v.ok(Hr0.shape == Er.shape and dom.exact(Hr0, Er), "inversion:reduced:preloaded",
             lambda: "inversion %d with the shared preload: reduced matrix differs by %s" % (rnd, dom.maxdiff(Hr0, Er) if Hr0.shape == Er.shape else Hr0.shape))
        try:
            inv.curvature_reg_matrix
            rec = np.array(inv.reconstruction, dtype=float)
            inv.regularization_term
            inv.log_det_curvature_reg_matrix_term
            inv.log_det_regularization_matrix_term
        except aa.exc.InversionException:
            rec = None
        recs.append(rec)
        now = pl.regularization_matrix
        intact = now is handed and isinstance(now, np.ndarray) and now.shape == E.shape and dom.exact(np.array(now, dtype=float), E)
        v.ok(intact, "inversion:preloaded-regularization_matrix-mutated",
             lambda: "Preloads.regularization_matrix after inversion %d: same object %s, max change %s" % (rnd, now is handed, dom.maxdiff(np.array(now, dtype=float), E)))
        if not intact:
            v.outcome += "/preload-mutated"
            return  # everything downstream (re-reads, the second inversion) is explained by the mutated preload
        Hr = np.array(inv.regularization_matrix_reduced, dtype=float)
        v.ok(Hr.shape == Er.shape and dom.exact(Hr, Er), "inversion:reduced:preloaded",
             lambda: "inversion %d with the shared preload, after the solve: reduced matrix differs by %s" % (rnd, dom.maxdiff(Hr, Er) if Hr.shape == Er.shape else Hr.shape))
    if recs[0] is not None and recs[1] is not None:
        v.ok(dom.exact(recs[0], recs[1]), "inversion:preloaded-regularization_matrix-mutated",
             lambda: "two identical inversions sharing one preload reconstruct differently: max diff %s" % dom.maxdiff(recs[0], recs[1]))
    v.outcome += "/solved" if recs[0] is not None else "/solver-exception"


def run_reassign(v, case):
    """read LinearObj.regularization_matrix -> re-assign .regularization (same object / copy.copy) -> inversion blocks."""
    import autoarray as aa

    _, mname, kind, trans, layout, wt, seed = case
    v.nontrivial = True
    v.outcome = "R/%s/%s/%s" % (trans, layout, "wt" if wt else "map")
    cls = "inversion:block-placement:after-regularization-reassigned"
    wd = PARAMS[kind]

    def scheme(tag, pos):
        return block_scheme(aa, kind, pos) if tag == "S" else None

    fx = fix_inv.make_dataset(FRAME, KSHAPE, mask_bits(mname), seed=seed, sub=1)
    o = fix_inv.make_obj(fx, kind, reg=False, seed=seed)
    o.regularization = scheme(trans[0], 0)
    b_from = _twin_block(aa, (mname, seed), kind, scheme(trans[0], 0))
    b_to = _twin_block(aa, (mname, seed), kind, scheme(trans[2], 1))

    def same(got, b):
        g = np.array(got, dtype=float)
        want = np.zeros((wd, wd)) if b is None else b
        return g.shape == want.shape and dom.exact(g, want), g, want

    ok, g, want = same(o.regularization_matrix, b_from)  # the first read
    v.ok(ok, "LinearObj.regularization_matrix", lambda: "%s with %s: first read differs from the scheme's matrix by %s" % (kind, trans[0], dom.maxdiff(g, want)))
    if layout == "same":
        o.regularization = scheme(trans[2], 1)
        target, objs, blocks, regs = o, [o], [b_to], [trans[2] == "S"]
    else:
        target = copy.copy(o)
        target.regularization = scheme(trans[2], 1)
        if layout == "copy":
            objs, blocks, regs = [target], [b_to], [trans[2] == "S"]
        else:
            objs, blocks, regs = [o, target], [b_from, b_to], [trans[0] == "S", trans[2] == "S"]
    ok, g, want = same(target.regularization_matrix, b_to)
    v.ok(ok, cls, lambda: "%s: regularization %s -> %s (%s): the object's regularization_matrix differs from its CURRENT scheme's matrix by %s"
         % (kind, trans[0], trans[2], layout, dom.maxdiff(g, want)))
    if layout == "copy-pair":
        ok, g, want = same(o.regularization_matrix, b_from)
        v.ok(ok, cls, lambda: "%s: original object after its copy was re-assigned: differs by %s" % (kind, dom.maxdiff(g, want)))
    widths = [wd] * len(objs)
    E = expected_blocks(widths, blocks)
    keep = _keep(widths, regs)
    Er = E[np.ix_(keep, keep)] if keep else np.zeros((0, 0))
    inv = aa.Inversion(dataset=fx["ds"], linear_obj_list=objs, settings=fix_inv.settings(aa, wt))
    H = np.array(inv.regularization_matrix, dtype=float)
    v.ok(H.shape == E.shape and dom.exact(H, E), cls,
         lambda: "%s: regularization %s -> %s (%s): inversion.regularization_matrix differs from the blocks of the current schemes by %s"
         % (kind, trans[0], trans[2], layout, dom.maxdiff(H, E) if H.shape == E.shape else H.shape))
    Hr = np.array(inv.regularization_matrix_reduced, dtype=float)
    v.ok(Hr.shape == Er.shape and (Hr.size == 0 or dom.exact(Hr, Er)), cls,
         lambda: "%s: regularization %s -> %s (%s): reduced matrix shape %s vs %s" % (kind, trans[0], trans[2], layout, Hr.shape, Er.shape))


def kernel_residual(name, H, coefficient, scale, mapper):
    """
    max|H C / coefficient - I| for the documented covariance C_ij = k(d_ij) + 1e-8 delta_ij of the mesh centres/vertices of
    `mapper` (k = exp(-d/scale) resp. exp(-d^2 / (2 scale^2))), and the tolerance 1e3*eps*cond(C) + 1e-9. Only used
    self-calibrated (see run_reuse): the formula is demanded on the second mesh only if the first use obeys it.
    """
    pts = np.array(mapper.source_plane_mesh_grid, dtype=float).reshape(-1, 2)
    d = np.sqrt(((pts[:, None, :] - pts[None, :, :]) ** 2).sum(axis=2))
    C = np.exp(-d / scale) if name == "ExponentialKernel" else np.exp(-d ** 2 / (2.0 * scale ** 2))
    C[np.arange(len(pts)), np.arange(len(pts))] += 1e-8
    if H.shape != C.shape:
        return np.inf, 0.0
    res = _absmax(H @ C / coefficient - np.eye(len(pts)))
    return res, 1e3 * np.finfo(float).eps * np.linalg.cond(C) + 1e-9


def _mesh_tag(mesh):
    return "del" if mesh[0] == "del" else "rect%dx%d" % (mesh[1], mesh[2])


def run_reuse(v, case):
    """ONE scheme instance on mesh A, then on mesh B, then on A again: each result must be that of a fresh instance."""
    import autoarray as aa

    _, plane, mesh_a, mesh_b, name, params, adapt, seed = case
    v.nontrivial = True
    sfx = ":reused-instance"
    strict = name in STRICT
    fxa, map_a, na, edges_a, spacing = build_mapper(plane, mesh_a, adapt, seed)
    fxb, map_b, nb, edges_b, _ = build_mapper(plane, mesh_b, adapt, seed)
    v.outcome = "U/%s/%s" % (name, "same-size" if na == nb else "other-size")
    shared = make_scheme(aa, name, params, spacing)

    def fresh(mesh):
        _, mp, _, _, _ = build_mapper(plane, mesh, adapt, seed)
        sc = make_scheme(aa, name, params, spacing)
        return np.array(sc.regularization_matrix_from(linear_obj=mp), dtype=float), np.array(sc.regularization_weights_from(linear_obj=mp), dtype=float)

    Ha = np.array(shared.regularization_matrix_from(linear_obj=map_a), dtype=float)
    wa = np.array(shared.regularization_weights_from(linear_obj=map_a), dtype=float)
    if general_laws(v, name, Ha, na, strict):
        stated_matrix(v, name, params, Ha, wa, na, edges_a)
    Ha_copy = Ha.copy()
    # ---- second mesh, same instance
    Hb_raw = shared.regularization_matrix_from(linear_obj=map_b)
    Hb = np.array(Hb_raw, dtype=float)
    wb = np.array(shared.regularization_weights_from(linear_obj=map_b), dtype=float)
    Hbf, wbf = fresh(mesh_b)
    v.ok(wb.shape == (nb,) and wb.shape == wbf.shape and dom.exact(wb, wbf), "%s:weights%s" % (name, sfx),
         lambda: "weights on %s after %s: shape %s, fresh instance gives shape %s" % (_mesh_tag(mesh_b), _mesh_tag(mesh_a), wb.shape, wbf.shape))
    if general_laws(v, name, Hb, nb, strict, sfx):
        v.ok(Hbf.shape == Hb.shape and dom.exact(Hb, Hbf), "%s:matrix%s" % (name, sfx),
             lambda: "instance first used on %s, then on %s: matrix differs from a fresh instance's by %s" % (_mesh_tag(mesh_a), _mesh_tag(mesh_b), dom.maxdiff(Hb, Hbf)))
        stated_matrix(v, name, params, Hb, wb, nb, edges_b, sfx)
        if name in ("GaussianKernel", "ExponentialKernel") and Ha.shape == (na, na):
            # a process-wide memo defeats the fresh-instance comparison: the matrix must be the inverse covariance of THIS mesh
            ra, ta = kernel_residual(name, Ha, params[0], shared.scale, map_a)
            rb, tb = kernel_residual(name, Hb, params[0], shared.scale, map_b)
            if ra <= ta and tb < 1e-3:  # calibrated on the first use; the second covariance is usably conditioned
                v.ok(rb <= tb, "%s:matrix%s" % (name, sfx),
                     lambda: "instance first used on %s, then on %s: max|H C/coefficient - I| = %.3e for the covariance C of the second mesh (tolerance %.1e; first use: %.1e)"
                     % (_mesh_tag(mesh_a), _mesh_tag(mesh_b), rb, tb, ra))
                v.outcome += "/kernel-formula"
    # ---- back to the first mesh; the first result must not have been changed either
    Ha2 = np.array(shared.regularization_matrix_from(linear_obj=map_a), dtype=float)
    v.ok(Ha2.shape == Ha_copy.shape and dom.exact(Ha2, Ha_copy), "%s:matrix%s" % (name, sfx),
         lambda: "instance used on %s, %s, %s again: third matrix differs from the first (shape %s vs %s)" % (_mesh_tag(mesh_a), _mesh_tag(mesh_b), _mesh_tag(mesh_a), Ha2.shape, Ha_copy.shape))
    v.ok(dom.exact(Ha, Ha_copy), "%s:matrix%s" % (name, sfx), lambda: "matrix returned for the first mesh was modified by the later calls")
    # ---- the same through the linear objects: two mappers of one inversion sharing the instance
    shared2 = make_scheme(aa, name, params, spacing)
    fx2, m_a, _, _, _ = build_mapper(plane, mesh_a, adapt, seed, regularization=shared2)
    _, m_b, _, _, _ = build_mapper(plane, mesh_b, adapt, seed, regularization=shared2)
    inv = aa.Inversion(dataset=fx2["ds"], linear_obj_list=[m_a, m_b], settings=fix_inv.settings(aa, False))
    Hi = np.array(inv.regularization_matrix, dtype=float)
    if Hbf.shape == (nb, nb) and Ha_copy.shape == (na, na):
        E = expected_blocks([na, nb], [Ha_copy, Hbf])
        v.ok(Hi.shape == E.shape and dom.exact(Hi, E), "inversion:block-placement%s" % sfx,
             lambda: "two mappers (%s, %s) sharing one %s instance: inversion.regularization_matrix shape %s vs %s, differs by %s"
             % (_mesh_tag(mesh_a), _mesh_tag(mesh_b), name, Hi.shape, E.shape, dom.maxdiff(Hi, E) if Hi.shape == E.shape else "n/a"))


EPS = float(np.finfo(float).eps)


def kernel_covariance(name, pts, scale):
    """The documented covariance of the kernel schemes, from the definition: C_ij = k(|p_i - p_j|) + 1e-8 * delta_ij."""
    n = len(pts)
    C = np.zeros((n, n))
    for i in range(n):
        for j in range(n):
            d2 = (pts[i, 0] - pts[j, 0]) ** 2 + (pts[i, 1] - pts[j, 1]) ** 2
            C[i, j] = np.exp(-np.sqrt(d2) / scale) if name == "ExponentialKernel" else np.exp(-d2 / (2.0 * scale ** 2))
        C[i, i] += 1e-8
    return C


def run_kernel(v, case):
    """
    Kernel schemes over the whole range of scale / mesh spacing. All tolerances are multiples of eps * cond(C) of the
    REFERENCE covariance C (cond <= n * 1e8 by construction of the ridge), never of a quantity derived from the library's output.
    """
    import autoarray as aa

    _, plane, mesh, name, (coef, f), seed = case
    fx, mapper, n, _, _ = build_mapper(plane, mesh, "-", seed)
    _, s = fix_inv.source_plane(fx, plane[2], seed)
    field = (np.ptp(s[:, 0]) + np.ptp(s[:, 1])) / 2.0
    scale = f * field
    pts = ref_rect.overlay_geometry(s, (mesh[1], mesh[2]))["centres"] if mesh[0] == "rect" else kernel_vertices(mesh[1], mesh[2], seed, s)
    got_pts = np.array(mapper.source_plane_mesh_grid, dtype=float).reshape(-1, 2)
    if not v.ok(got_pts.shape == pts.shape and bool(np.all(np.abs(got_pts - pts) <= 1e-9 * field)), "kernel:mesh-points",
                lambda: "mesh centres/vertices of the mapper differ from the independent ones by %s" % dom.maxdiff(got_pts, pts)):
        return
    C = kernel_covariance(name, pts, scale)
    lam, Q = np.linalg.eigh(C)
    cond = float(lam[-1] / lam[0])
    u = EPS * cond
    regime = "separated" if cond < 1e4 else ("overlapping" if cond < 1e8 else "ridge-dominated")
    v.nontrivial = cond >= 1e8
    v.outcome = "K/%s/%s/%s" % (name, mesh[0], regime)

    scheme = getattr(aa.reg, name)(coefficient=coef, scale=scale)
    try:
        H = scheme.regularization_matrix_from(linear_obj=mapper)
    except Exception as e:  # e.g. LinAlgError('Singular matrix'): the property says the matrix exists and is PD
        v.fail("%s:not-pd" % name, "regularization_matrix_from raised %r (scale = %s x field, cond(C) = %.2e)" % (e, f, cond))
        return
    ok = v.ok(isinstance(H, np.ndarray) and H.ndim == 2 and H.shape == (n, n), "%s:size" % name,
              lambda: "matrix shape %s, linear object has %d parameters" % (getattr(H, "shape", None), n))
    if not ok:
        return
    H = np.array(H, dtype=float)
    if not v.ok(bool(np.all(np.isfinite(H))), "%s:not-finite" % name, "non-finite entries"):
        return
    w = np.array(scheme.regularization_weights_from(linear_obj=mapper), dtype=float)
    v.ok(w.shape == (n,) and bool(np.all(np.isfinite(w))), "%s:weights" % name, lambda: "weights shape %s" % (w.shape,))
    tag = "%s %s scale=%sxfield coefficient=%s cond(C)=%.2e" % (name, mesh, f, coef, cond)

    # ---- symmetry (observed <= 0.4 * eps * cond)
    hmax = max(_absmax(H), 1e-300)
    asym = _absmax(H - H.T) / hmax
    symtol = max(1e-12, 20.0 * u)
    v.ok(asym <= symtol, "%s:not-symmetric" % name, lambda: "%s: max|H-H^T|/max|H| = %.3e (tolerance %.1e)" % (tag, asym, symtol))

    # ---- the matrix is coefficient * C^-1: norm-wise against the spectral inverse of the reference (observed <= 6 * eps * cond)
    Href = coef * (Q / lam) @ Q.T
    rel = _absmax(H - Href) / _absmax(Href)
    reltol = max(1e-12, 100.0 * u)
    v.ok(rel <= reltol, "%s:matrix" % name,
         lambda: "%s: max|H - coefficient*C^-1| / max|coefficient*C^-1| = %.3e (tolerance %.1e), C = kernel + 1e-8 I" % (tag, rel, reltol))

    # ---- quadratic form on the eigenvectors q_k of C: q_k^T H q_k = coefficient / lambda_k, RELATIVE to each value, i.e. also
    # for the smooth modes whose value (~coefficient/n) is 1e-10 of ||H|| (observed <= 11 * eps * cond)
    qf = np.einsum("ik,ij,jk->k", Q, H, Q)
    qrel = float(np.max(np.abs(qf * lam / coef - 1.0)))
    qtol = max(1e-12, 200.0 * u)
    v.ok(qrel <= qtol, "%s:quadratic-form" % name,
         lambda: "%s: max_k |q_k^T H q_k * lambda_k / coefficient - 1| = %.3e (tolerance %.1e) over the eigenpairs of C; min q^T H q = %.6e"
         % (tag, qrel, qtol, float(qf.min())))

    # ---- strictly positive definite: x^T H x > 0 for all x <=> the symmetric part is PD. eigvalsh resolves eps*||H|| ~ 1e-8*coef,
    # the smallest eigenvalue is coefficient/lambda_max(C) >= coefficient/(n+1)
    Hs = (H + H.T) / 2.0
    ev = np.linalg.eigvalsh(Hs)
    try:
        np.linalg.cholesky(Hs)
        chol = True
    except np.linalg.LinAlgError:
        chol = False
    sign, _ = np.linalg.slogdet(H)
    v.ok(ev[0] > 0 and chol and sign > 0, "%s:not-pd" % name,
         lambda: "%s: min eigenvalue of (H+H^T)/2 = %.6e (reference %.6e), cholesky %s, slogdet sign %s"
         % (tag, ev[0], coef / lam[-1], "ok" if chol else "FAILED", sign))
    # the factorization of H as returned (LAPACK reads one triangle) is demanded where round-off asymmetry (~eps*cond*||H||)
    # cannot reach the smallest eigenvalue
    if 100.0 * u * _absmax(Href) < coef / lam[-1]:
        try:
            np.linalg.cholesky(H)
            chol_raw = True
        except np.linalg.LinAlgError:
            chol_raw = False
        v.ok(chol_raw, "%s:not-pd" % name, lambda: "%s: np.linalg.cholesky(H) failed" % tag)
        v.outcome += "/chol-as-returned"

    # ---- through a real inversion: same block, and the log-determinant used by the evidence exists and is that of coefficient*C^-1
    scheme2 = getattr(aa.reg, name)(coefficient=coef, scale=scale)
    fx2, mapper2, _, _, _ = build_mapper(plane, mesh, "-", seed, regularization=scheme2)
    inv = aa.Inversion(dataset=fx2["ds"], linear_obj_list=[mapper2], settings=fix_inv.settings(aa, False))
    Hi = np.array(inv.regularization_matrix, dtype=float)
    v.ok(dom.exact(Hi, H), "inversion:block-placement", lambda: "%s: inversion.regularization_matrix differs from the scheme's matrix by %s" % (tag, dom.maxdiff(Hi, H)))
    Hr = np.array(inv.regularization_matrix_reduced, dtype=float)
    v.ok(dom.exact(Hr, H), "inversion:reduced", lambda: "%s: reduced matrix differs by %s" % (tag, dom.maxdiff(Hr, H)))
    ld_ref = n * np.log(coef) - float(np.sum(np.log(lam)))
    ld_tol = 1e-8 * (1.0 + abs(ld_ref)) + 50.0 * n * u  # observed <= 1.1 * n * eps * cond
    try:
        ld = float(np.real(inv.log_det_regularization_matrix_term))
    except Exception as e:
        v.fail("%s:log-det" % name, "%s: log_det_regularization_matrix_term raised %r" % (tag, e))
        return
    v.ok(np.isfinite(ld) and abs(ld - ld_ref) <= ld_tol, "%s:log-det" % name,
         lambda: "%s: log_det_regularization_matrix_term = %.12g, n*log(coefficient) - log det C = %.12g, tol = %.3g" % (tag, ld, ld_ref, ld_tol))


def run_repeat(v, case):
    """Ordered object lists in which the same INSTANCE occurs more than once: block layout, reduced matrices, log-determinants."""
    import autoarray as aa

    _, mname, (labels, regs), wt, seed = case
    sfx = ":repeated-instance"
    kinds = [l.rstrip("'") for l in labels]
    first = {}
    for pos, l in enumerate(labels):
        first.setdefault(l, pos)
    on = dict(zip(labels, regs))
    v.nontrivial = True
    shape = "".join("abc"[sorted(first, key=first.get).index(l)] for l in labels)
    v.outcome = "M/%s/%s/%s" % (shape, "".join("r" if r else "u" for r in regs), "wt" if wt else "map")

    def build():
        fx = fix_inv.make_dataset(FRAME, KSHAPE, mask_bits(mname), seed=seed, sub=1)
        inst = {}
        for l, p in first.items():
            o = fix_inv.make_obj(fx, l.rstrip("'"), reg=False, seed=seed)
            if on[l]:
                o.regularization = block_scheme(aa, l.rstrip("'"), p)
            inst[l] = o
        return fx, [inst[l] for l in labels]

    # expected blocks from independently built twins (never the objects handed to the inversion)
    fxt, twins = build()
    widths = [PARAMS[k] for k in kinds]
    blocks = []
    for o, k, r, wd in zip(twins, kinds, regs, widths):
        if r:
            b = np.array(o.regularization.regularization_matrix_from(linear_obj=o), dtype=float)
            if not v.ok(b.shape == (wd, wd), "%s:size" % type(o.regularization).__name__, lambda: "%s block shape %s, params %d" % (k, b.shape, wd)):
                return
            blocks.append(b)
        else:
            blocks.append(None)
    E = expected_blocks(widths, blocks)
    keep = _keep(widths, regs)
    Er = E[np.ix_(keep, keep)] if keep else np.zeros((0, 0))
    P = sum(widths)
    tag = "[%s] regularized %s, %s" % (", ".join(labels), "".join("r" if r else "u" for r in regs), "w-tilde" if wt else "mapping")

    fx, objs = build()
    for a, la in enumerate(labels):  # the list really holds one object per label
        for b, lb in enumerate(labels):
            assert (objs[a] is objs[b]) == (la == lb)
    inv = aa.Inversion(dataset=fx["ds"], linear_obj_list=objs, settings=fix_inv.settings(aa, wt))
    held_r = inv.regularization_matrix_reduced
    H = np.array(inv.regularization_matrix, dtype=float)
    if not v.ok(H.shape == (P, P), "inversion:block-placement" + sfx, lambda: "%s: regularization_matrix shape %s, total parameters %d" % (tag, H.shape, P)):
        return
    covered = np.zeros((P, P), dtype=bool)
    off = 0
    for l, r, wd, b in zip(labels, regs, widths, blocks):
        sl = slice(off, off + wd)
        covered[sl, sl] = True
        got = H[sl, sl]
        if r:
            v.ok(dom.exact(got, b), "inversion:block-placement" + sfx,
                 lambda: "%s: block of %s at [%d:%d] differs from that object's own matrix by %s" % (tag, l, off, off + wd, dom.maxdiff(got, b)))
        else:
            v.ok(not got.any(), "inversion:zero-block" + sfx, lambda: "%s: unregularized %s at [%d:%d] has max|block| = %s" % (tag, l, off, off + wd, _absmax(got)))
        off += wd
    v.ok(not H[~covered].any(), "inversion:block-placement" + sfx, lambda: "%s: non-zero entries outside the diagonal blocks, max %s" % (tag, _absmax(H[~covered])))
    Hr = np.array(held_r, dtype=float)
    v.ok(Hr.shape == Er.shape and dom.exact(Hr, Er), "inversion:reduced" + sfx,
         lambda: "%s: regularization_matrix_reduced shape %s vs %s (regularized parameters %d of %d), maxdiff %s"
         % (tag, Hr.shape, Er.shape, len(keep), P, dom.maxdiff(Hr, Er)))
    # ---- log-determinant of the regularized blocks (one term per OCCURRENCE)
    if keep:
        ld_ref, tol = 0.0, 0.0
        for b in blocks:
            if b is not None:
                l_, t_ = logdet_tol(b)
                ld_ref, tol = ld_ref + l_, tol + t_
    else:
        ld_ref, tol = 0.0, 1e-12
    try:
        ld = float(np.real(inv.log_det_regularization_matrix_term))
        v.ok(np.isfinite(ld) and abs(ld - ld_ref) <= tol, "inversion:log-det" + sfx,
             lambda: "%s: log_det_regularization_matrix_term = %.12g, sum of slogdet over the regularized occurrences = %.12g, tol %.3g" % (tag, ld, ld_ref, tol))
    except Exception as e:
        v.fail("inversion:log-det" + sfx, "%s: log_det_regularization_matrix_term raised %r" % (tag, e))

    # ---- F + H reduced to the regularized occurrences, F from the reference normal equations of the twins' own mapping matrices
    B, wB = fix_inv.reference_B(fxt, twins)
    if list(wB) != list(widths):
        return
    _, F_ref = fix_inv.normal_equations(B, fxt["data"], fxt["noise"])
    FHr = (F_ref + E)[np.ix_(keep, keep)] if keep else np.zeros((0, 0))
    try:
        got = np.array(inv.curvature_reg_matrix_reduced, dtype=float)
    except Exception as e:
        v.fail("inversion:curvature_reg_matrix_reduced" + sfx, "%s: curvature_reg_matrix_reduced raised %r" % (tag, e))
        return
    if keep:  # with nothing regularized the library hands out a (0,0) or the full matrix - not a statement of the property
        scl = max(1.0, _absmax(FHr))
        v.ok(got.shape == FHr.shape and bool(np.allclose(got, FHr, rtol=1e-9, atol=1e-9 * scl)), "inversion:curvature_reg_matrix_reduced" + sfx,
             lambda: "%s: curvature_reg_matrix_reduced shape %s vs %s, maxdiff %s" % (tag, got.shape, FHr.shape, dom.maxdiff(got, FHr)))
        sign, _ = np.linalg.slogdet(FHr)
        evF = np.linalg.eigvalsh((FHr + FHr.T) / 2.0)
        if sign > 0 and evF[0] > 1e3 * EPS * evF[-1]:  # the reference itself is numerically PD
            ldc_ref, tolc = logdet_tol(FHr)
            try:
                ldc = float(np.real(inv.log_det_curvature_reg_matrix_term))
                v.ok(np.isfinite(ldc) and abs(ldc - ldc_ref) <= tolc, "inversion:log-det-curvature" + sfx,
                     lambda: "%s: log_det_curvature_reg_matrix_term = %.12g, slogdet of the reduced F+H = %.12g, tol %.3g" % (tag, ldc, ldc_ref, tolc))
                v.outcome += "/FH-pd"
            except Exception as e:
                v.fail("inversion:log-det-curvature" + sfx, "%s: log_det_curvature_reg_matrix_term raised %r" % (tag, e))
    # ---- re-read after the solve, as in 'B'
    try:
        inv.reconstruction
        solved = "solved"
    except aa.exc.InversionException:
        solved = "solver-exception"
    v.outcome += "/" + solved
    for what, g, want, cls in (
        ("regularization_matrix_reduced re-read", inv.regularization_matrix_reduced, Er, "inversion:reduced:after-solve"),
        ("regularization_matrix re-read", inv.regularization_matrix, E, "inversion:regularization_matrix:after-solve"),
        ("array obtained from regularization_matrix_reduced at the first read", held_r, Er, "inversion:reduced:after-solve"),
    ):
        g = np.array(g, dtype=float)
        v.ok(g.shape == want.shape and dom.exact(g, want), cls + sfx,
             lambda: "%s: %s after reconstruction (%s): shape %s vs %s" % (tag, what, solved, g.shape, want.shape))


def run_case(case):
    v = V(ID)
    if case[0] == "K":
        run_kernel(v, case)
    elif case[0] == "M":
        run_repeat(v, case)
    elif case[0] == "S":
        run_scheme(v, case)
    elif case[0] == "B":
        run_blocks(v, case)
    elif case[0] == "P":
        run_preload(v, case)
    elif case[0] == "R":
        run_reassign(v, case)
    elif case[0] == "U":
        run_reuse(v, case)
    else:
        raise ValueError(case[0])
    return v.result()
