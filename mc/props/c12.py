"""C12 - all geometry is covariant under translation of the coordinate origin (metamorphic check).

Everything is built twice: on a mask / dataset / source-plane configuration with origin ``o`` and on the
same configuration with origin ``o + d`` (and every scaled-coordinate *input* moved by ``d`` too).  Then

* every coordinate-valued observable must move by exactly ``d`` (tolerance 1e-9 * (1 + |d| + |o|));
* every index-, count-, boolean-, value-, weight- and matrix-valued observable must be identical
  (integers / booleans / gathered values exactly, weights and matrix entries to 1e-9 relative).

There is no hand written expected geometry: the reference is the library's own answer at the base origin, so
the oracle is independent of the pixel-centre convention and of the (separately tracked) edge/border defects.

Finding classes are one per public entry point (``C12:Grid2D.padded_grid_from`` ...).  An exception raised on
one side only, or a different exception type on the two sides, is a violation of the same entry-point class.

Translations.  Every entry point of every case meets the four generic translations of ``D_MENU``.  Translations with
special structure (``SPECIAL_CLASSES``: exactly one zero component - both axes, both signs -, equal components,
integer multiples of the pixel scales, minus the origin so that the translated origin is exactly (0,0), larger than
the whole frame) depend on the configuration and are rotated over entry points and cases (``special_plan``): in an S
case every entry point that does not depend on the masked pixels meets one class, every other entry point meets one
class in every third case; every M case adds one class, every H case six; T cases run every entry point with every
class on a few masks per frame.  Census (quick tier): every (entry point, class) pair is met >= 9 times by
the S cases alone and 20-30 times by the T cases of the quick tier.

The library's own translation mechanism is an entry point of its own: the grid of the BASE origin moved with
``Grid2D.subtracted_from(offset=-d)`` - and the grids of a fit of the BASE-origin dataset with
``DatasetModel(grid_offset=-d)`` - must be the base grids moved by d for every d above (mask origin, over sampler,
padded and blurring grids derived from the moved grid included), also when the move is made in two axis-aligned steps.

Optional behaviour and foreign containers (entry points that do not depend on the masked pixels; they run on the
frame-level masks of every frame / scale / origin and in the T cases):

* ``Grid2D.grid_2d_radial_projected_from[options]``: the projected centre is dropped or kept, requested by keyword
  (``remove_projected_centre=True / False`` against the opposite configuration value) and by configuration (keyword
  ``None``, ``general.grid.remove_projected_centre`` switched on and off inside the case and restored afterwards), at
  angles 0 and 30, for the generic centre (``shape_slim`` derived and explicit) and for the centres that are EXACTLY
  (0.0, 0.0) in the frame of origin base + d_k for every translation d_k the configuration can meet (k = 0: the base
  frame).  All of them are evaluated in every frame, so a pair (base, base + d_j) sees a centre that is exactly zero in
  the base frame only, one that is exactly zero in the translated frame only (where, at angle 0, it is requested through
  the default argument), and centres that are zero in neither frame.
* ``geometry.grid_pixel_indexes_2d_from[containers]`` / ``geometry.scaled_coordinates_2d_from[containers]``: every
  conversion route of a geometry (``mask.geometry`` and a ``Geometry2D`` built directly; ``grid_pixel_indexes_2d_from``,
  ``grid_pixel_centres_2d_from``, ``grid_pixels_2d_from``, ``grid_scaled_2d_from``) on the same translated points held in
  twelve container forms: ``Grid2D`` on an unmasked mask of the geometry's origin / of the base origin, ``Grid2D.no_mask``
  (native and slim values, default origin, a third origin, the geometry's origin, other shapes and pixel scales),
  ``Grid2D.from_yx_1d`` (arrays and lists), ``Grid2D.from_yx_2d``, a plain ndarray and a ``Grid2DIrregular`` (both are
  refused with the same exception type at every origin), plus a ``Grid2D.from_extent`` lattice over a translated extent.
  The answers must be covariant AND every Grid2D form must give exactly the answer of the first form at every origin
  (``must`` observations): the geometry's origin decides, never the container's.

Histories inside one structure case (the runner forks a fresh process per chunk, so they cannot span cases):

* the base origin is always evaluated first and the translated origins afterwards, so a process-global memo keyed
  without the origin shows as a plain covariance violation of the entry point;
* read-then-derive (``history_grid``, every case): ``parent.over_sampler`` / ``over_sampled_grid`` are read, then
  ``parent.subtracted_from(offset)`` and ``padded_grid_from`` are derived; the child (grid, mask origin, its over
  sampler's mask origin and over-sampled grid) must equal the child of an unread parent
  (``<entry point>:over_sampler-after-read``) and, for ``subtracted_from``, be the parent moved by -offset;
* read-then-derive on masks (``history_mask``, one (scale, origin) combination per frame x mask): all geometry of the
  parent is read, then ``resized_from`` / ``rescaled_from`` / ``blurring_from`` children are observed through their
  own mask centre / unmasked grid / zoom offset and compared with children of an unread parent (``<...>:after-read``);
* ndarray origins + shared objects (``nd_pass``, same subset): every entry point once more at one origin of the case
  (base or base+d, rotating) with all origins handed over as float ndarrays and ONE mask / grid / array / dataset
  shared by all entry points, their properties read first.  Results must be identical to the tuple-origin results at
  that origin (attributed by re-running the entry point alone: ``<entry point>:ndarray-origin-differs`` or
  ``<entry point>:after-read``) and after every entry point / property read every origin array must still equal its
  pristine copy (``origin-mutated-by:<entry point or Type.property>``).
"""
from fractions import Fraction

import numpy as np

from mc import dom
from mc.core import V

ID = "C12"
ENGINE = "scope"
CHUNK = 6

RULE = (
    "cases: S = (frame, free-block bits, pixel-scale pair, base origin): every mask whose unmasked pixels are any "
    "non-empty subset of a 3x3 (thorough: also 4x4) block placed in a list of frames (centred, off-centre in "
    "even/odd frames, frame-touching), each driven through every structure / dataset / index entry point at the "
    "base origin and at base+d for every d of the generic translation menu, plus translations with special structure "
    "(one zero component, equal components, pixel-scale multiples, minus the origin, beyond the frame) rotating over "
    "entry points and cases; the entry points include the library's own translation mechanism (Grid2D.subtracted_from "
    "and FitDataset.grids with DatasetModel.grid_offset, offset = -d applied to the structures of the base origin); "
    "the radial projection is also driven through its optional centre removal (keyword and configuration, both values) "
    "with centres exactly (0,0) in the base frame / in a translated frame / in neither, and every conversion route of a "
    "geometry meets the translated points inside twelve container forms that carry their own origin (all forms must agree); "
    "T = every entry point x every special translation class on a few masks per frame; M = mapper cases (mask subset x sub-size "
    "scheme x scale x origin; rectangular meshes of two shapes and a Delaunay mesh on jittered source points in "
    "general position); H = Hilbert image-mesh cases on circular masks (radius x scale x origin).  Every S case also "
    "runs a read-then-derive history on a grid with an over sampler; one (scale, origin) combination of every "
    "(frame, mask) also runs a read-then-derive history on the mask and one more pass of all entry points with float "
    "ndarray origins on shared, already-read objects.  "
    "non-trivial = mask has >=2 unmasked pixels, at least one masked pixel inside its bounding box or a "
    "non-square bounding box or touches the frame (S), any mapper / Hilbert case (M, H)"
)
ASSUMPTIONS = [
    "translation menu d in {(1,0),(0,-2),(1.75,-2.25),(-0.3,1000)} x base origins {(0,0),(0.4,-1.1)} represents "
    "'arbitrary real d': axis-aligned, dyadic two-axis, and non-dyadic/large translations; a forgotten origin "
    "shows for every d != 0 on the affected axis",
    "translations with special structure are represented by 12 classes (SPECIAL_CLASSES): (0.75,0), (-1.3,0), (0,1.5), "
    "(0,-0.6); (0.8,0.8), (-1.25,-1.25); (sy,sx), (-2sy,3sx), (3sy,0) for pixel scales (sy,sx); minus the base origin; "
    "(3H sy+0.37, -(2W sx+0.11)) and (0, 4W sx+0.23) for an HxW frame.  Whether a defect shows for such a d is assumed "
    "not to depend on the mask pattern beyond what the rotation covers: each (entry point, class) pair is met on >=9 "
    "(mask-independent entry points) / >=189 (others; >=44 for the fixed-offset fit, which runs on a quarter of the "
    "masks) S cases and on 20-30 T cases of the quick tier",
    "Grid2D.subtracted_from(offset) is the translation by -offset (its mask origin moves with it): the moved grid, its "
    "over sampler and the padded / blurring grids derived from it must equal those of the unmoved grid shifted by "
    "-offset; FitDataset.grids are the dataset's uniform / non_uniform / pixelization / blurring grids moved by "
    "-DatasetModel.grid_offset (the border relocator a fit hands on is not a coordinate-valued result of the "
    "property's list and is not observed)",
    "floating-point ties are excluded by construction: query points >=0.1 pixel from pixel boundaries, radial "
    "centres with a unique longest arm and non-integer arm/pixel ratio, overlay shapes whose overlay centres are "
    "not on pixel boundaries (exact rational test), source-plane points >=1e-6 from rectangular cell edges and "
    "with barycentric margins >=1e-6 in the Delaunay triangulation, Delaunay vertices with empty-circle margin, "
    "circular radii >=1e-6 from every pixel-centre radius, Hilbert adapt images additive-separable g(row)+h(col) "
    "on an unmasked array so that linear interpolation does not depend on which diagonal Qhull picks for the "
    "co-circular lattice squares",
    "radial projections from the exactly-zero centres: a centre whose longest y and x arms tie while the pixel scales differ "
    "is skipped (rounding picks the step), one whose arm / pixel-scale ratio is within 1e-5 relative of an integer is "
    "requested with an explicit shape_slim (round(ratio)+1) instead of the derived one; general.grid.remove_projected_centre "
    "is switched by item assignment on the loaded configuration section (the object the library reads) and restored in a "
    "finally block; the radial projection and the geometry conversion routes depend on the frame (shape, pixel scales, "
    "origin) only, so they run on the frame-level masks",
    "a Grid2D handed to a Geometry2D conversion route is only a container of (y,x) values: the result is defined by the "
    "geometry's shape, pixel scales and origin and is wrapped in the container's mask unchanged; containers holding the "
    "same points therefore give bit-identical values; Grid2D.from_extent lattices are laid over extents whose 3x4 points "
    "are >=0.02 pixel from every pixel boundary",
    "mapper source-plane coordinates are multiples of 2^-20 so dyadic translations are exact in floating point",
    "rows of mapper index/weight tables are compared as sets of (pixel index, weight) pairs (vertex order inside "
    "a Delaunay simplex carries no meaning)",
    "SimulatorImaging is run with a fixed noise_seed so simulated values are reproducible",
    "an origin given as a float ndarray of shape (2,) is a legal input of Mask2D / Mask2D.all_false / Array2D.no_mask / "
    "Array2D.full / Grid2D.uniform / Kernel2D.no_mask and must give results identical to the tuple with the same "
    "values; the library must never modify it in place; the same holds for the offset of Grid2D.subtracted_from (whose "
    "signature names np.ndarray)",
    "in-place origin modification, ndarray/tuple differences and stale cached state do not depend on the pixel scale or "
    "base origin, so one (scale, origin) combination per (frame, mask) and one origin of the case (rotating over base "
    "and the four translations) suffice for the ndarray / shared-object pass",
]
BOUNDS = {
    "quick": "S: all 511 masks of a 3x3 free block x 5 frames (5x5 centred, 6x7 and 7x6 off-centre, 3x3 and 4x5 "
    "frame-touching); on the 5x5 frame all 3 pixel-scale pairs x 2 base origins, on the other frames two of the six "
    "combinations rotating with the mask (every frame sees every combination); x 4 translations; 37 entry-point "
    "classes (45 entry-point functions) each (the 14 that do not depend on which pixels are masked only on 9 masks per frame/scale/origin); "
    "among them the radial projection with centre removal requested 4 ways (keyword on/off against the opposite configuration, "
    "configuration on/off) x 2 angles x up to 19 centres (generic x 2 shape_slim forms, exactly (0,0) in the frame of origin "
    "base+d_k for the 17 translations of the configuration), and 4 conversion routes x 2 geometries x 12 container forms of "
    "one point per pixel (+4 off-frame points in the slim forms) + a 3x4 from_extent lattice; "
    "+ per S case one special-structure translation (12 classes rotating) for every mask-independent entry point and "
    "for a third of the other 31 entry-point functions; the entry points include subtracted_from / "
    "FitDataset.grids used as the translation by d of base-origin structures, and (on a quarter of the masks) a "
    "fixed-offset fit of the dataset of every origin; "
    "the resize family is observed at 5 target shapes of Mask2D.resized_from (grow, mixed, shrink, the IDENTITY "
    "resize new_shape == shape, one dimension kept) and, for Array2D, resized_from to the same shape, "
    "trimmed_after_convolution_from with kernels 3x3, 1x1, 2x2 (zero cut), 1x3 and padded_before_convolution_from "
    "with kernels 3x5, 1x1 (zero pad), 1x3; "
    "T: 3 masks (1, 5 and 9 unmasked pixels) x 5 frames x 2 (scale, origin) combinations x 12 special classes x every "
    "entry point; "
    "+ per S case a read-over-sampler-then-derive history (subtracted_from, padded_grid_from); + for one "
    "(scale, origin) combination of each of the 5 x 511 (frame, mask) pairs a read-then-derive mask history "
    "(resized_from, rescaled_from, blurring_from) and one pass of all entry points with ndarray origins on shared "
    "pre-read objects at one of the 5 origins of the case; "
    "M: 72 masks x 3 sub-size schemes x 2 scales x 2 origins x (4 translations + 1 rotating special class) x (2 rectangular + 1 Delaunay mesh); "
    "H: 3 circular radii x 2 scales x 2 origins x (4 translations + 6 rotating special classes; every class six times)",
    "thorough": "quick plus T on 72 masks x 5 frames x 2 combinations, S on all 65535 masks of a 4x4 free block in 6x6 / 7x6 / 4x4 frames (frame, scale and "
    "origin rotating with the mask), M on all 511 masks, H on 4 radii x 2 pixel counts",
}

D_MENU = [(1.0, 0.0), (0.0, -2.0), (1.75, -2.25), (-0.3, 1000.0)]
O_MENU = [(0.0, 0.0), (0.4, -1.1)]
PS_MENU = [(1.0, 1.0), (0.5, 2.0), (0.3, 0.7)]
# (H, W, oy, ox, block): the free block of side `block` sits at rows oy.., cols ox..
FRAMES3 = [(5, 5, 1, 1, 3), (6, 7, 1, 3, 3), (7, 6, 3, 1, 3), (3, 3, 0, 0, 3), (4, 5, 0, 2, 3)]
FRAMES4 = [(6, 6, 1, 1, 4), (7, 6, 2, 1, 4), (4, 4, 0, 0, 4)]
FRAMES = FRAMES3 + FRAMES4
HILBERT_R = [(7, 2.1), (9, 3.3), (7, 1.2), (11, 4.3)]  # (frame side, radius in pixels)
HILBERT_PS = [1.0, 0.5]
Q = 2.0 ** -20

# Translations with special structure.  They depend on the configuration (pixel scales, base origin, frame), so the
# menu is a function; the ORDER is fixed (the rotation below indexes it).
SPECIAL_CLASSES = [
    "axis+y", "axis-y", "axis+x", "axis-x",  # exactly one zero component: both axes, both signs
    "equal+", "equal-",  # both components equal
    "pixels(1,1)", "pixels(-2,3)", "pixels(3,0)",  # integer multiples of the pixel scales (one of them axis-aligned)
    "minus-origin",  # the translated origin is exactly (0.0, 0.0); for the base origin (0,0) this is d = (0,0)
    "beyond-extent", "beyond-extent-axis",  # larger than the whole frame (generic / axis-aligned)
]
NSPECIAL = len(SPECIAL_CLASSES)
S_STRIDE = 3  # quick S cases: a mask-level entry point meets one special translation in every third case
H_SPECIALS = 6  # special translations per Hilbert case (an evaluation costs ~0.1 s)


def special_translations(ps, o, H, W):
    """The special-structure translation menu of one configuration, in the order of SPECIAL_CLASSES."""
    ps, o = _t(ps), _t(o)
    return [
        (0.75, 0.0),
        (-1.3, 0.0),
        (0.0, 1.5),
        (0.0, -0.6),
        (0.8, 0.8),
        (-1.25, -1.25),
        (ps[0], ps[1]),
        (-2.0 * ps[0], 3.0 * ps[1]),
        (3.0 * ps[0], 0.0),
        (0.0 - o[0], 0.0 - o[1]),
        (3.0 * H * ps[0] + 0.37, -(2.0 * W * ps[1] + 0.11)),
        (0.0, 4.0 * W * ps[1] + 0.23),
    ]


# ----------------------------------------------------------------------------------------------- cases


def _mapper_bits(tier):
    if tier == "thorough":
        return list(range(1, 512))
    special = {1, 16, 256, 511, 495, 186, 341, 7, 73, 27, 432}
    return [b for b in range(1, 512) if b % 8 == 7 or b in special]


def cases(tier, seed):
    seed = int(seed)
    light = []
    for fi in range(len(FRAMES3)):
        for bits in range(1, 512):
            if fi == 0:
                combos = [(si, oi) for si in range(len(PS_MENU)) for oi in range(len(O_MENU))]
            else:  # two of the six (scale, origin) combinations, rotating with the mask
                combos = sorted({((bits + fi) % 3, bits % 2), ((bits + fi + 1) % 3, (bits + 1) % 2)})
            for si, oi in combos:
                light.append(["S", fi, bits, si, oi, seed])
    light.sort(key=lambda c: (bin(c[2]).count("1"), c[2], c[1], c[3], c[4]))
    mcases = []
    for bits in _mapper_bits(tier):
        for sub in (0, 1, 2):
            for si in (0, 1):
                for oi in range(len(O_MENU)):
                    mcases.append(["M", 0 if (bits + sub) % 2 == 0 else 1, bits, sub, si, oi, seed])
    heavy = []
    nr = 3 if tier == "quick" else 4
    for ri in range(nr):
        for pi in range(len(HILBERT_PS)):
            for oi in range(len(O_MENU)):
                for px in ((8,) if tier == "quick" else (8, 13)):
                    heavy.append(["H", ri, pi, oi, px, seed])
    # T: every entry point x every translation with special structure on a few (thorough: 72) masks per frame
    tbits = (1, 186, 511) if tier == "quick" else _mapper_bits("quick")
    sweeps = []
    for fi in range(len(FRAMES3)):
        for bits in tbits:
            for si, oi in sorted({((bits + fi) % 3, bits % 2), ((bits + fi + 1) % 3, (bits + 1) % 2)}):
                sweeps.append(["T", fi, bits, si, oi, seed])
    mcases = _interleave(mcases, sweeps, [])
    if tier == "thorough":
        k = 0
        for bits in range(1, 2 ** 16):
            fi = len(FRAMES3) + (bits % len(FRAMES4))
            light.append(["S", fi, bits, (bits // 3) % len(PS_MENU), (bits // 9) % len(O_MENU), seed])
            k += 1
    # interleave: heavy (Hilbert, ~6 s each) cases are spread over the stream so that no worker task holds two
    light = _interleave(light, mcases, heavy)
    for c in light:
        yield c


def _interleave(light, mcases, heavy):
    out = []
    n = len(light)
    step_m = max(1, n // max(1, len(mcases)))
    step_h = max(1, (n // 2) // max(1, len(heavy)))
    im = ih = 0
    for k, c in enumerate(light):
        out.append(c)
        if k % step_m == step_m - 1 and im < len(mcases):
            out.append(mcases[im])
            im += 1
        if k % step_h == 0 and ih < len(heavy):
            out.append(heavy[ih])
            ih += 1
    out.extend(mcases[im:])
    out.extend(heavy[ih:])
    return out


# ----------------------------------------------------------------------------------------------- helpers


def frame_mask(fi, bits):
    H, W, oy, ox, b = FRAMES[fi]
    m = np.ones((H, W), dtype=bool)
    for k in range(b * b):
        if (bits >> k) & 1:
            m[oy + k // b, ox + k % b] = False
    return m


def _t(x):
    return (float(x[0]), float(x[1]))


def add(o, d):
    return (float(o[0]) + float(d[0]), float(o[1]) + float(d[1]))


class Obs:
    """Ordered list of named observations of one entry point: (name, kind, value)."""

    def __init__(self):
        self.items = []

    def coord(self, name, val):
        self.items.append((name, "coord", np.array(val, dtype=float)))

    def extent(self, name, val):
        self.items.append((name, "extent", np.array(val, dtype=float)))

    def same(self, name, val):
        self.items.append((name, "same", np.array(val)))

    def close(self, name, val):
        self.items.append((name, "close", np.array(val, dtype=float)))

    def must(self, name, cond):
        """A relation between results at ONE origin that has to hold at every origin (e.g. two container forms of the
        same points give the same answer)."""
        self.items.append((name, "must", np.array(bool(cond))))

    def sub(self, name, fn):
        """Run a sub-observation; an exception becomes an observable of its own."""
        try:
            fn()
        except Exception as e:  # noqa: BLE001 - exception type is the observable
            self.items.append((name + ".exception", "same", np.array(type(e).__name__)))

    # -- descriptors of library structures
    def mask(self, name, mk):
        self.same(name + ".mask", np.array(mk))
        self.coord(name + ".origin", mk.origin)
        self.same(name + ".pixel_scales", mk.pixel_scales)
        self.extent(name + ".extent", mk.geometry.extent)

    def grid(self, name, g):
        self.coord(name + ".slim", np.array(g.slim).reshape(-1, 2))
        self.mask(name, g.mask)

    def array(self, name, a):
        self.same(name + ".native", np.array(a.native))
        self.mask(name, a.mask)


class Once:
    """Wraps V: every observation is counted, but only the first violation of a finding class per case is kept
    (the runner keeps at most 20 messages per case; one defect must not hide another entry point's)."""

    def __init__(self, v):
        self.v = v
        self.seen = set()

    def ok(self, cond, finding, msg=""):
        if cond or finding not in self.seen:
            self.v.ok(cond, finding, msg)
        else:
            self.v.checks += 1
        if not cond:
            self.seen.add(finding)

    def fail(self, finding, msg=""):
        self.ok(False, finding, msg)


def compare(v, finding, A, B, d, tol, labels=("base", "translated"), relations=True):
    """A, B: Obs (or exception type name) of the entry point at origin o and at o+d (d = 0: two evaluations at the
    same origin that must agree; `labels` names them in the message).  relations=False: a "must" observation is only
    required to be the same on both sides (used where two evaluations at one origin are compared: whether the relation
    holds is judged where base and translated origins are compared)."""
    if isinstance(A, str) or isinstance(B, str):
        sa = A if isinstance(A, str) else "no exception"
        sb = B if isinstance(B, str) else "no exception"
        v.ok(sa == sb, finding, lambda: "%s: %s (%s) but %s (%s), d=%s" % (finding, sa, labels[0], sb, labels[1], list(d)))
        return
    na = [(n, k) for n, k, _ in A.items]
    nb = [(n, k) for n, k, _ in B.items]
    if na != nb:
        v.fail(finding, "%s: observables differ between %s and %s: %s vs %s (d=%s)" % (finding, labels[0], labels[1], na[:12], nb[:12], list(d)))
        return
    dv = np.array(d, dtype=float)
    de = np.array([dv[1], dv[1], dv[0], dv[0]])
    for (name, kind, a), (_, _, b) in zip(A.items, B.items):
        if a.shape != b.shape:
            v.fail(finding, "%s.%s: shape %s (%s) vs %s (%s), d=%s" % (finding, name, a.shape, labels[0], b.shape, labels[1], list(d)))
            continue
        if a.size == 0:
            v.ok(True, finding)
            continue
        err = None
        if kind == "coord":
            err = np.abs((b - a) - dv)
            good = bool(err.max() <= tol)  # a NaN makes this False
        elif kind == "extent":
            err = np.abs((b - a) - de)
            good = bool(err.max() <= tol)
        elif kind == "close":
            err = np.abs(b - a)
            good = bool(np.all((err <= 1e-9 * (1.0 + np.abs(a))) | (np.isnan(a) & np.isnan(b))))
        elif kind == "must" and relations:
            good = bool(a.all()) and bool(b.all())
        elif a.dtype == b.dtype and a.tobytes() == b.tobytes():
            good = True
        else:
            good = bool(np.array_equal(a, b, equal_nan=True) if a.dtype.kind == "f" else np.array_equal(a, b))
        if good:
            v.ok(True, finding)
            continue
        v.ok(
            False,
            finding,
            "%s.%s (%s) d=%s: %s=%s %s=%s%s"
            % (
                finding,
                name,
                {"coord": "must shift by d", "extent": "must shift by d", "close": "must be unchanged", "same": "must be identical", "must": "must hold at every origin"}[kind],
                list(d),
                labels[0],
                _short(a),
                labels[1],
                _short(b),
                "" if err is None else " max|err|=%.3g" % float(np.max(err)),
            ),
        )


def _short(a):
    a = np.asarray(a)
    s = np.array2string(a.ravel()[:8], precision=6, separator=",")
    return s + ("..." if a.size > 8 else "")


def run_entry(fn, *args):
    try:
        ob = Obs()
        fn(ob, *args)
        return ob
    except Exception as e:  # noqa: BLE001
        return type(e).__name__


# ----------------------------------------------------------------------------------------------- S cases


def overlay_tiefree(n, s):
    """True iff no centre of `s` equal cells laid over n pixels lies on a pixel boundary (exact)."""
    for k in range(s):
        if (Fraction(2 * k + 1, 2) * Fraction(n, s)).denominator == 1:
            return False
    return True


def radial_centre(H, W, ps, rg):
    """A centre (relative to the origin) with a unique longest arm and a non-integer arm/pixel-scale ratio."""
    hy, hx = H * ps[0] / 2.0, W * ps[1] / 2.0
    for _ in range(200):
        cy = float(rg.uniform(-0.8, 0.8)) * hy
        cx = float(rg.uniform(-0.8, 0.8)) * hx
        arms = [(hx - cx, 1), (hy - cy, 0), (hx + cx, 1), (hy + cy, 0)]
        srt = sorted(a for a, _ in arms)
        if srt[-1] - srt[-2] < 1e-3:
            continue
        amax, axis = max(arms)
        frac = (amax / ps[axis]) % 1.0
        if 0.05 < frac < 0.95:
            return (cy, cx)
    raise RuntimeError("no tie-free radial centre")


def radial_form(H, W, ps, c_rel):
    """How a radial projection from the centre `c_rel` (relative to the origin of an HxW frame) can be requested free of
    floating-point ties.  "skip": the longest arm along y and along x tie while the pixel scales differ (which scale
    steps the radii is decided by rounding); an int: the arm / pixel-scale ratio is (nearly) an integer, so the number
    of radii the library would derive is decided by rounding and is handed over explicitly (shape_slim=) instead;
    None: no tie, shape_slim is left to the library."""
    ay = H * ps[0] / 2.0 + abs(c_rel[0])
    ax = W * ps[1] / 2.0 + abs(c_rel[1])
    band = 1e-6 * (1.0 + ax + ay)
    if abs(ax - ay) <= band:
        if ps[0] != ps[1]:
            return "skip"
        ratio = max(ax, ay) / ps[0]
    else:
        ratio = ay / ps[0] if ay > ax else ax / ps[1]
    frac = ratio % 1.0
    if min(frac, 1.0 - frac) <= 1e-5 * (1.0 + ratio):
        return int(round(ratio)) + 1
    return None


def lattice_extent(H, W, ps):
    """(x0, x1, y0, y1) relative to the origin such that no point of the 3x4 lattice Grid2D.from_extent lays over it is
    within 0.02 pixel of a pixel boundary of the HxW frame (first hit of a fixed menu)."""
    for k in range(200):
        t = 0.013 * k
        ext = ((-0.43 - t) * W * ps[1], (0.37 + t / 5.0) * W * ps[1], (-0.41 + t / 3.0) * H * ps[0], (0.46 - t) * H * ps[0])
        ys = np.linspace(ext[3], ext[2], 3)
        xs = np.linspace(ext[0], ext[1], 4)
        fy = (H * ps[0] / 2.0 - ys) / ps[0]
        fx = (xs + W * ps[1] / 2.0) / ps[1]
        f = np.concatenate([fy, fx])
        if np.all(np.abs(f - np.round(f)) >= 0.02) and ext[0] < ext[1] and ext[2] < ext[3]:
            return ext
    raise RuntimeError("no tie-free lattice extent")


# a container origin that is neither (0,0) nor an origin any case evaluates a geometry at
CONTAINER_ORIGIN = (-3.25, 2.5)


def set_remove_projected_centre(flag):
    """Switch general.grid.remove_projected_centre in the running process (item assignment on the loaded section: the
    object Grid2D.grid_2d_radial_projected_from reads when the keyword is None); returns the previous value."""
    from autoconf import conf

    sec = conf.instance["general"]["grid"]
    old = sec["remove_projected_centre"]
    sec["remove_projected_centre"] = bool(flag)
    if bool(conf.instance["general"]["grid"]["remove_projected_centre"]) != bool(flag):
        raise RuntimeError("harness: cannot switch general.grid.remove_projected_centre")
    return old


class Ctx:
    """Everything that defines one S configuration *relative to the origin*."""

    def __init__(self, fi, bits, si, oi, seed):
        self.m = frame_mask(fi, bits)
        self.H, self.W = self.m.shape
        self.ps = PS_MENU[si]
        self.o = O_MENU[oi]
        rg = dom.rng(seed, "C12", "S", fi, si)
        n = self.H * self.W
        self.values = np.round(rg.uniform(1.0, 9.0, size=(self.H, self.W)), 3) + np.arange(n).reshape(self.H, self.W) * 10.0
        self.noise = np.round(rg.uniform(0.5, 2.0, size=(self.H, self.W)), 3)
        k = rg.uniform(0.2, 1.0, size=(3, 3))
        self.kernel = np.round(k, 3)
        # one query point inside every pixel of the frame (>=0.1 pixel from its boundary) + 4 points off the frame
        off = rg.uniform(-0.4, 0.4, size=(self.H, self.W, 2))
        ii, jj = np.meshgrid(np.arange(self.H), np.arange(self.W), indexing="ij")
        py = (self.H / 2.0 - ii - 0.5 + off[:, :, 0]) * self.ps[0]
        px = (jj + 0.5 - self.W / 2.0 + off[:, :, 1]) * self.ps[1]
        self.pts_rel = np.stack([py, px], axis=-1)  # native [H, W, 2]
        far = np.array([[self.H / 2.0 + 1.3, 0.2], [-self.H / 2.0 - 0.7, -0.3], [0.3, self.W / 2.0 + 2.2], [-0.2, -self.W / 2.0 - 1.4]])
        self.far_rel = far * np.array(self.ps)
        self.pix_pts = np.stack([ii + 0.5 + off[:, :, 0], jj + 0.5 + off[:, :, 1]], axis=-1).reshape(-1, 2)
        self.radial_c = radial_centre(self.H, self.W, self.ps, rg)
        u = ~self.m
        rows = np.flatnonzero(u.any(axis=1))
        cols = np.flatnonzero(u.any(axis=0))
        self.bbox = (int(rows[-1] - rows[0] + 1), int(cols[-1] - cols[0] + 1))
        # overlay shapes whose cell centres avoid the pixel boundaries of the mask's bounding box, per axis
        ty = [k for k in (3, 2, 4, 5) if overlay_tiefree(self.bbox[0], k)]
        tx = [k for k in (3, 4, 2, 5) if overlay_tiefree(self.bbox[1], k)]
        self.overlay_shapes = sorted({(ty[0], tx[0]), (ty[-1] if len(ty) < 2 else ty[1], tx[-1] if len(tx) < 2 else tx[1])})
        self.sub_adapt = 1 + (np.arange(int(u.sum())) % 3)
        self.offset = (float(np.round(rg.uniform(-1, 1), 2)), float(np.round(rg.uniform(-1, 1), 2)))
        if self.offset[0] == 0.0 or self.offset[1] == 0.0:  # the offset must move both axes
            self.offset = (0.37, -0.61)
        # the translation currently applied to the base origin (run_S keeps `origin == add(self.o, self.d)` for every
        # evaluation): the entry points that translate through the library's own mechanism (Grid2D.subtracted_from,
        # DatasetModel.grid_offset) move the structures of the BASE origin by exactly this d
        self.d = (0.0, 0.0)
        self.fi, self.bits = fi, bits
        self.cache = {}
        self.lattice_rel = lattice_extent(self.H, self.W, self.ps)

    def translations(self):
        """Every translation a case of this configuration can meet: none, the generic menu, the special classes."""
        return [(0.0, 0.0)] + [_t(d) for d in D_MENU] + special_translations(self.ps, self.o, self.H, self.W)

    def radial_centres(self):
        """Centres (relative to the origin) of the radial-projection options entry point: (tag, c_rel, shape_slim).

        generic : the tie-free random centre of the configuration, shape_slim left to the library and given explicitly;
        zero@k  : the centre that is EXACTLY (0.0, 0.0) in the frame whose origin is base + d_k, for every translation
                  d_k the configuration can meet (k = 0: the base frame itself) - in every other frame of the case it is
                  the generic point d_j - d_k.  Evaluated in every frame of the case, so each pair (base, base + d_j)
                  sees a centre that is exactly zero in the base frame only, one that is exactly zero in the translated
                  frame only, and centres that are zero in neither."""
        out = [("generic", self.radial_c, None), ("generic,shape_slim=3", self.radial_c, 3)]
        for k, d in enumerate(self.translations()):
            ok = add(self.o, d)
            c_rel = (0.0 - ok[0], 0.0 - ok[1])
            form = radial_form(self.H, self.W, self.ps, c_rel)
            if form == "skip":
                continue
            out.append(("zero@origin+d%d%s" % (k, "" if form is None else ",shape_slim=%d" % form), c_rel, form))
        return out


class _Mode:
    """How the S entry points build their inputs during one pass (set by run_S).

    ndarray : every origin handed to the library is a float ndarray (legal); each array is registered together with
              a pristine copy so that an in-place modification by the library can be detected afterwards.
    shared  : None -> every entry point builds its own mask / grid / array / dataset from scratch (cold objects);
              dict -> one mask, grid, array and dataset per origin are shared by all entry points of the pass, and
              every geometry property of them has been read (caches filled) before any entry point derives anything
              from them."""

    def __init__(self):
        self.ndarray = False
        self.shared = None
        self.origins = []
        self.on_read = None

    def set(self, ndarray=False, shared=False):
        self.ndarray = ndarray
        self.shared = {} if shared else None
        self.origins = []
        self.on_read = None

    def get(self, key, build, warm):
        if self.shared is None:
            return build()
        if key not in self.shared:
            obj = build()
            self.shared[key] = obj
            warm(obj)
        return self.shared[key]

    def mutated(self):
        """Registered origin arrays that no longer equal their pristine copy (they are restored)."""
        bad = []
        for a, p in self.origins:
            if not np.array_equal(a, p):
                bad.append((p.copy(), a.copy()))
                a[...] = p
        return bad


MODE = _Mode()


def org(o):
    """The origin in the form the current pass hands it to the library."""
    if not MODE.ndarray:
        return o
    a = np.array(o, dtype=float)
    MODE.origins.append((a, a.copy()))
    return a


_CACHED_NAMES = {}


def _read(obj, names, cached=True):
    """Evaluate properties (filling whatever the library caches); what they return is observed elsewhere.  After each
    read the registered origin arrays are checked (attribution of in-place modifications to the property read)."""
    t = type(obj)
    if t not in _CACHED_NAMES:
        from autoconf import cached_property

        _CACHED_NAMES[t] = [n for n in dir(t) if isinstance(getattr(t, n, None), cached_property)]
    for n in list(names) + [c for c in _CACHED_NAMES[t] if cached and c not in names]:
        try:
            x = obj
            for part in n.split("."):
                x = getattr(x, part)
        except Exception:  # noqa: BLE001 - e.g. circular_radius of a non-circular mask
            pass
        if MODE.on_read is not None and MODE.origins:
            MODE.on_read("%s.%s" % (t.__name__, n))


def _warm_mask(mask):
    _read(mask, ["mask_centre", "zoom_centre", "zoom_offset_scaled", "zoom_mask_unmasked", "geometry.extent",
                 "derive_grid.unmasked", "derive_grid.all_false"])


def _warm_grid(g):
    _read(g, ["over_sampler.over_sampled_grid", "over_sampler.slim_for_sub_slim", "geometry.extent", "origin", "native",
              "shape_native_scaled_interior", "scaled_maxima"])


def _warm_array(a):
    _read(a, ["native", "origin", "geometry.extent"])


def _warm_imaging(ds):
    # explicit list only: the dataset's other cached properties (convolver, w_tilde) hold no coordinates
    _read(ds, ["grids.uniform", "grids.pixelization", "grids.blurring", "grid", "grids.uniform.over_sampler.over_sampled_grid"], cached=False)


def s_entry_points(aa):
    """name -> function(ob, cx, origin).  Every function rebuilds its inputs from scratch at `origin`."""

    def mk(cx, o):
        def build():
            return aa.Mask2D(mask=cx.m.copy(), pixel_scales=cx.ps, origin=org(o))

        return MODE.get(("mask", o), build, _warm_mask)

    def gr(cx, o):
        def build():
            if MODE.shared is None:
                return aa.Grid2D.from_mask(mask=mk(cx, o))
            return aa.Grid2D.from_mask(mask=mk(cx, o), over_sampling=aa.OverSamplingUniform(sub_size=2))

        return MODE.get(("grid", o), build, _warm_grid)

    def arr(cx, o, vals=None):
        def build():
            return aa.Array2D(values=(cx.values if vals is None else vals).copy(), mask=mk(cx, o))

        return MODE.get(("array", o, vals is None), build, _warm_array)

    def imaging(cx, o):
        def build():
            full = aa.Mask2D.all_false(shape_native=cx.m.shape, pixel_scales=cx.ps, origin=org(o))
            return aa.Imaging(
                data=aa.Array2D(values=cx.values.copy(), mask=full),
                noise_map=aa.Array2D(values=cx.noise.copy(), mask=full),
                psf=aa.Kernel2D.no_mask(values=cx.kernel.copy(), pixel_scales=cx.ps, origin=org(o)),
            )

        return MODE.get(("imaging", o), build, _warm_imaging)

    def dataset(ob, ds, blurring=True):
        ob.array("data", ds.data)
        ob.array("noise_map", ds.noise_map)
        ob.sub("grids.uniform", lambda: ob.grid("grids.uniform", ds.grids.uniform))
        ob.sub("grids.pixelization", lambda: ob.grid("grids.pixelization", ds.grids.pixelization))
        if blurring:
            ob.sub("grids.blurring", lambda: ob.grid("grids.blurring", ds.grids.blurring))
        ob.sub("grid", lambda: ob.coord("grid", np.array(ds.grid.slim)))

    E = {}  # key -> (finding class, frame_level, function)

    def ep(name, frame=False, key=None):
        def deco(f):
            E[key or name] = (name, frame, f)
            return f

        return deco

    # ---- grids of a mask
    @ep("Grid2D.from_mask")
    def _(ob, cx, o):
        g = gr(cx, o)
        ob.grid("grid", g)
        ob.coord("grid.origin", g.origin)
        ob.extent("grid.geometry.extent", g.geometry.extent)

    for nm in ("all_false", "unmasked", "edge", "border"):

        def f(ob, cx, o, nm=nm):
            ob.grid(nm, getattr(mk(cx, o).derive_grid, nm))

        E["derive_grid." + nm] = ("derive_grid." + nm, False, f)

    @ep("Grid2D.blurring_grid_from")
    def _(ob, cx, o):
        for ks in ((3, 3), (1, 3)):
            ob.sub("k%dx%d" % ks, lambda ks=ks: ob.grid("k%dx%d" % ks, aa.Grid2D.blurring_grid_from(mask=mk(cx, o), kernel_shape_native=ks)))

    @ep("Grid2D.blurring_grid_via_kernel_shape_from")
    def _(ob, cx, o):
        g = gr(cx, o)
        ob.grid("blurring", g.blurring_grid_via_kernel_shape_from(kernel_shape_native=(3, 3)))

    @ep("Grid2D.padded_grid_from")
    def _(ob, cx, o):
        g = gr(cx, o)
        for ks in ((3, 3), (5, 3)):
            ob.grid("k%dx%d" % ks, g.padded_grid_from(kernel_shape_native=ks))

    @ep("Grid2D.subtracted_from")
    def _(ob, cx, o):
        g = gr(cx, o)
        ob.grid("subtracted", g.subtracted_from(offset=cx.offset))

    @ep("Grid2D.subtracted_from", key="Grid2D.subtracted_from[as-translation]")
    def _(ob, cx, o):
        # the library's own translation mechanism: the grid of the BASE origin moved by d = -offset must be the grid
        # of the origin base+d, and so must everything derived from the moved grid.  (At the base origin d = (0,0).)
        if MODE.shared is None:
            parent = aa.Grid2D.from_mask(mask=mk(cx, cx.o), over_sampling=aa.OverSamplingUniform(sub_size=2))
        else:
            parent = gr(cx, cx.o)
        moved = parent.subtracted_from(offset=org((-cx.d[0], -cx.d[1])))
        ob.grid("moved", moved)
        ob.coord("moved.origin", moved.origin)
        ob.extent("moved.geometry.extent", moved.geometry.extent)
        osr = moved.over_sampler
        ob.same("moved.over_sampler.mask", np.array(osr.mask))
        ob.coord("moved.over_sampler.mask.origin", osr.mask.origin)
        ob.coord("moved.over_sampler.over_sampled_grid", np.array(osr.over_sampled_grid))
        ob.same("moved.over_sampler.slim_for_sub_slim", np.array(osr.slim_for_sub_slim))
        ob.grid("moved.padded_grid_from", moved.padded_grid_from(kernel_shape_native=(3, 3)))
        ob.sub("moved.blurring", lambda: ob.grid("moved.blurring", moved.blurring_grid_via_kernel_shape_from(kernel_shape_native=(3, 3))))
        # twice: moving by d in two steps (first along y, then along x) is moving by d
        two = parent.subtracted_from(offset=org((-cx.d[0], 0.0))).subtracted_from(offset=org((0.0, -cx.d[1])))
        ob.grid("moved-in-two-axis-steps", two)

    @ep("structure-constructors(origin=)", frame=True)
    def _(ob, cx, o):
        ob.grid("uniform", aa.Grid2D.uniform(shape_native=cx.m.shape, pixel_scales=cx.ps, origin=org(o)))
        ob.array("Array2D.no_mask", aa.Array2D.no_mask(values=cx.values.copy(), pixel_scales=cx.ps, origin=org(o)))
        ob.array("Array2D.full", aa.Array2D.full(fill_value=2.0, shape_native=cx.m.shape, pixel_scales=cx.ps, origin=org(o)))

    @ep("OverSamplerUniform.over_sampled_grid")
    def _(ob, cx, o):
        mask = mk(cx, o)
        ob.coord("sub2", np.array(aa.OverSamplerUniform(mask=mask, sub_size=2).over_sampled_grid))
        sub = aa.Array2D(values=cx.sub_adapt.copy(), mask=mask)
        os_ = aa.OverSamplerUniform(mask=mask, sub_size=sub)
        ob.coord("adaptive", np.array(os_.over_sampled_grid))
        ob.same("slim_for_sub_slim", np.array(os_.slim_for_sub_slim))
        ob.close("sub_pixel_areas", np.array(os_.sub_pixel_areas))

    @ep("OverSamplerUniform.binned_array_2d_from")
    def _(ob, cx, o):
        mask = mk(cx, o)
        os_ = aa.OverSamplerUniform(mask=mask, sub_size=2)
        sg = np.array(os_.over_sampled_grid) - np.array(o)
        vals = aa.ArrayIrregular(values=3.0 * sg[:, 0] - 2.0 * sg[:, 1] + sg[:, 0] * sg[:, 1])
        b = os_.binned_array_2d_from(array=vals)
        ob.close("binned", np.array(b.slim))
        ob.mask("binned", b.mask)

    @ep("BorderRelocator.sub_grid")
    def _(ob, cx, o):
        br = aa.BorderRelocator(mask=mk(cx, o), sub_size=2)
        ob.coord("sub_grid", np.array(br.sub_grid))
        ob.same("sub_border_slim", np.array(br.sub_border_slim))
        ob.sub("border_grid", lambda: ob.coord("border_grid", np.array(br.border_grid)))
        ob.sub("sub_border_grid", lambda: ob.coord("sub_border_grid", np.array(br.sub_border_grid)))

    # ---- mask geometry
    @ep("Mask2D.mask_centre")
    def _(ob, cx, o):
        ob.coord("mask_centre", mk(cx, o).mask_centre)

    @ep("Mask2D.geometry.extent", frame=True)
    def _(ob, cx, o):
        geo = mk(cx, o).geometry
        ob.extent("extent", geo.extent)
        ob.coord("scaled_maxima", geo.scaled_maxima)
        ob.coord("scaled_minima", geo.scaled_minima)
        ob.same("shape_native_scaled", geo.shape_native_scaled)
        ob.same("central_pixel_coordinates", geo.central_pixel_coordinates)
        ob.coord("origin", geo.origin)

    @ep("Mask2D.zoom_mask_unmasked")
    def _(ob, cx, o):
        mask = mk(cx, o)
        ob.same("zoom_region", np.array(mask.zoom_region))
        ob.close("zoom_centre(pixels)", mask.zoom_centre)
        ob.close("zoom_offset_pixels", mask.zoom_offset_pixels)
        ob.same("zoom_shape_native", mask.zoom_shape_native)
        z = mask.zoom_mask_unmasked
        ob.mask("zoom_mask_unmasked", z)
        ob.coord("zoom_mask_unmasked.grid", np.array(aa.Grid2D.from_mask(mask=z).slim))

    @ep("Array2D.zoomed_around_mask")
    def _(ob, cx, o):
        for buf in (1, 0):
            ob.sub("buffer%d" % buf, lambda buf=buf: ob.array("buffer%d" % buf, arr(cx, o).zoomed_around_mask(buffer=buf)))

    @ep("Array2D.extent_of_zoomed_array")
    def _(ob, cx, o):
        for buf in (1, 0):
            ob.sub("buffer%d" % buf, lambda buf=buf: ob.extent("buffer%d" % buf, arr(cx, o).extent_of_zoomed_array(buffer=buf)))

    @ep("Grid2D.grid_2d_radial_projected_from")
    def _(ob, cx, o):
        g = gr(cx, o)
        c = add(o, cx.radial_c)
        ob.same("shape_slim", g.grid_2d_radial_projected_shape_slim_from(centre=c))
        for ang in (0.0, 30.0):
            for rem in (False, True):
                ob.coord(
                    "angle%d,remove_centre=%s" % (ang, rem),
                    np.array(g.grid_2d_radial_projected_from(centre=c, angle=ang, remove_projected_centre=rem)),
                )

    @ep("Grid2D.grid_2d_radial_projected_from", frame=True, key="Grid2D.grid_2d_radial_projected_from[options]")
    def _(ob, cx, o):
        # optional behaviour (dropping the projected centre) switched by keyword and by configuration, for centres that
        # are exactly (0.0, 0.0) in this frame, exactly (0.0, 0.0) in another frame of the case, or generic.  The
        # projection depends on the frame (extent, pixel scales) only, not on which pixels are masked.
        g = gr(cx, o)
        old = set_remove_projected_centre(False)
        try:
            for tag, c_rel, shape_slim in cx.radial_centres():
                c = add(o, c_rel)
                for ang in (0.0, 30.0):
                    kw = {"angle": ang}
                    if shape_slim is not None:
                        kw["shape_slim"] = shape_slim
                    if not (c == (0.0, 0.0) and ang == 0.0):
                        kw["centre"] = c  # else: the default argument, which IS the centre (0.0, 0.0)
                    # (keyword, configuration): the keyword wins over the configuration, None defers to it
                    for mode, rem, cfg in (("kw=False/cfg=True", False, True), ("kw=True/cfg=False", True, False), ("kw=None/cfg=True", None, True), ("kw=None/cfg=False", None, False)):
                        set_remove_projected_centre(cfg)
                        name = "%s,angle%d,remove_centre:%s" % (tag, ang, mode)
                        ob.sub(name, lambda: ob.coord(name, np.array(g.grid_2d_radial_projected_from(remove_projected_centre=rem, **kw))))
        finally:
            set_remove_projected_centre(old)

    @ep("image_mesh.Overlay")
    def _(ob, cx, o):
        for shp in cx.overlay_shapes:
            ob.coord("shape%dx%d" % shp, np.array(aa.image_mesh.Overlay(shape=shp).image_plane_mesh_grid_from(mask=mk(cx, o))).reshape(-1, 2))

    @ep("image_mesh.mesh_pixels_per_image_pixels_from")
    def _(ob, cx, o):
        mask = mk(cx, o)
        pts = (cx.pts_rel[~cx.m] + np.array(o)).reshape(-1, 2)
        pts = np.concatenate([pts, pts[::2] * 1.0])
        im = aa.image_mesh.Overlay(shape=(3, 3))
        ob.array("counts", im.mesh_pixels_per_image_pixels_from(mask=mask, mesh_grid=aa.Grid2DIrregular(values=pts)))

    @ep("Mask2D.resized_from")
    def _(ob, cx, o):
        # target shapes: grow both, grow/shrink mixed, shrink one, and the degenerate members of the class - the
        # IDENTITY resize (new shape == shape) and a resize that keeps one dimension
        for shp in ((cx.H + 2, cx.W + 3), (cx.H + 1, cx.W - 1), (max(1, cx.H - 2), cx.W), (cx.H, cx.W), (cx.H, cx.W + 2)):
            ob.sub("to%dx%d" % shp, lambda shp=shp: ob.mask("to%dx%d" % shp, mk(cx, o).resized_from(new_shape=shp, pad_value=1)))

    @ep("Mask2D.rescaled_from")
    def _(ob, cx, o):
        ob.mask("x2", mk(cx, o).rescaled_from(rescale_factor=2.0))

    @ep("Mask2D.derive_mask")
    def _(ob, cx, o):
        dm = mk(cx, o).derive_mask
        for nm in ("all_false", "edge", "edge_buffed", "border"):
            ob.sub(nm, lambda nm=nm: ob.mask(nm, getattr(dm, nm)))
        ob.sub("blurring", lambda: ob.mask("blurring", dm.blurring_from(kernel_shape_native=(3, 3))))

    @ep("Mask2D.trimmed_array_from", frame=True)
    def _(ob, cx, o):
        big = aa.Mask2D.all_false(shape_native=(cx.H + 2, cx.W + 2), pixel_scales=cx.ps, origin=org(o))
        padded = aa.Array2D(values=np.arange(float((cx.H + 2) * (cx.W + 2))).reshape(cx.H + 2, cx.W + 2), mask=big)
        ob.array("trimmed", big.trimmed_array_from(padded_array=padded, image_shape=(cx.H, cx.W)))
        psf = aa.Kernel2D.no_mask(values=cx.kernel.copy(), pixel_scales=cx.ps)
        ob.array("unmasked_blurred", big.unmasked_blurred_array_from(padded_array=padded, psf=psf, image_shape=(cx.H, cx.W)))

    @ep("Array2D.resized_from")
    def _(ob, cx, o):
        ob.array("resized", arr(cx, o).resized_from(new_shape=(cx.H + 2, cx.W + 1)))
        ob.array("padded_before_convolution", arr(cx, o).padded_before_convolution_from(kernel_shape=(3, 5)))
        ob.sub("trimmed_after_convolution", lambda: ob.array("trimmed_after_convolution", arr(cx, o).trimmed_after_convolution_from(kernel_shape=(3, 3))))
        # degenerate (zero-cut / zero-pad) members of the same class: the result has the shape of the input
        ob.sub("resized-identity", lambda: ob.array("resized-identity", arr(cx, o).resized_from(new_shape=(cx.H, cx.W))))
        for ks in ((1, 1), (2, 2), (1, 3)):
            ob.sub("trimmed_after_convolution%dx%d" % ks, lambda ks=ks: ob.array("trimmed_after_convolution%dx%d" % ks, arr(cx, o).trimmed_after_convolution_from(kernel_shape=ks)))
        for ks in ((1, 1), (1, 3)):
            ob.sub("padded_before_convolution%dx%d" % ks, lambda ks=ks: ob.array("padded_before_convolution%dx%d" % ks, arr(cx, o).padded_before_convolution_from(kernel_shape=ks)))

    # ---- datasets
    @ep("Imaging.apply_mask")
    def _(ob, cx, o):
        dataset(ob, imaging(cx, o).apply_mask(mask=mk(cx, o)))

    @ep("Imaging.apply_noise_scaling")
    def _(ob, cx, o):
        dataset(ob, imaging(cx, o).apply_noise_scaling(mask=mk(cx, o), noise_value=1.0e4), blurring=False)
        ob.sub(
            "snr",
            lambda: dataset(ob, imaging(cx, o).apply_noise_scaling(mask=mk(cx, o), signal_to_noise_value=3.0, should_zero_data=False), blurring=False),
        )

    @ep("Imaging.apply_over_sampling")
    def _(ob, cx, o):
        osd = aa.OverSamplingDataset(uniform=aa.OverSamplingUniform(sub_size=2), pixelization=aa.OverSamplingUniform(sub_size=3))
        masked = imaging(cx, o).apply_mask(mask=mk(cx, o))
        ds = masked.apply_over_sampling(over_sampling=osd)
        dataset(ob, ds)
        ob.same("uniform.sub_size", int(ds.grids.uniform.over_sampling.sub_size))
        ob.sub("border_relocator.sub_grid", lambda: ob.coord("border_relocator.sub_grid", np.array(ds.grids.border_relocator.sub_grid)))

    @ep("Imaging.apply_over_sampling", frame=True, key="Imaging.apply_over_sampling[unmasked]")
    def _(ob, cx, o):
        osd = aa.OverSamplingDataset(uniform=aa.OverSamplingUniform(sub_size=2), pixelization=aa.OverSamplingUniform(sub_size=3))
        dataset(ob, imaging(cx, o).apply_over_sampling(over_sampling=osd), blurring=False)

    @ep("Imaging.trimmed_after_convolution_from", frame=True, key="Imaging.trimmed_after_convolution_from[unmasked]")
    def _(ob, cx, o):
        dataset(ob, imaging(cx, o).trimmed_after_convolution_from(kernel_shape=(3, 3)), blurring=False)

    @ep("Imaging.trimmed_after_convolution_from")
    def _(ob, cx, o):
        dataset(ob, imaging(cx, o).apply_mask(mask=mk(cx, o)).trimmed_after_convolution_from(kernel_shape=(3, 3)), blurring=False)

    @ep("Imaging.__init__", frame=True, key="Imaging.__init__[unmasked]")
    def _(ob, cx, o):
        dataset(ob, imaging(cx, o), blurring=False)

    @ep("Imaging.__init__")
    def _(ob, cx, o):
        padded = aa.Imaging(data=arr(cx, o), noise_map=arr(cx, o, cx.noise), psf=aa.Kernel2D.no_mask(values=cx.kernel.copy(), pixel_scales=cx.ps), pad_for_convolver=True)
        dataset(ob, padded)

    class _Fit(aa.FitImaging):
        @property
        def model_data(self):
            return self.dataset.data

    def fit_dataset(cx, o):
        def build():
            osd = aa.OverSamplingDataset(
                uniform=aa.OverSamplingUniform(sub_size=2),
                non_uniform=aa.OverSamplingUniform(sub_size=1),
                pixelization=aa.OverSamplingUniform(sub_size=3),
            )
            return imaging(cx, o).apply_mask(mask=mk(cx, o)).apply_over_sampling(over_sampling=osd)

        if MODE.shared is not None or o != cx.o:
            return build()
        # one dataset at the base origin is fitted with every grid offset of the case (the way an offset is
        # marginalised over); the fits must not influence one another through it
        if "fit-dataset" not in cx.cache:
            cx.cache["fit-dataset"] = build()
        return cx.cache["fit-dataset"]

    def fit_grids(ob, tag, ds, offset):
        gs = _Fit(dataset=ds, dataset_model=aa.DatasetModel(grid_offset=offset)).grids
        for nm in ("uniform", "non_uniform", "pixelization", "blurring"):
            ob.sub(tag + nm, lambda nm=nm: ob.grid(tag + nm, getattr(gs, nm)))
        ob.sub(tag + "uniform.over_sampler", lambda: ob.coord(tag + "uniform.over_sampler.over_sampled_grid", np.array(gs.uniform.over_sampler.over_sampled_grid)))
        ob.sub(tag + "pixelization.over_sampler", lambda: ob.coord(tag + "pixelization.over_sampler.mask.origin", gs.pixelization.over_sampler.mask.origin))

    @ep("FitDataset.grids(DatasetModel.grid_offset)")
    def _(ob, cx, o):
        # the grids a fit works on: those of the dataset moved by -grid_offset.  The dataset of the BASE origin with
        # grid_offset = -d must give the grids of the origin base+d.
        fit_grids(ob, "moved-by-grid_offset:", fit_dataset(cx, cx.o), (-cx.d[0], -cx.d[1]))

    @ep("FitDataset.grids(DatasetModel.grid_offset)", key="FitDataset.grids(DatasetModel.grid_offset)[fixed-offset]")
    def _(ob, cx, o):
        # a fixed offset on the dataset of the translated origin
        fit_grids(ob, "fixed-grid_offset:", fit_dataset(cx, o), cx.offset)

    @ep("SimulatorImaging.via_image_from", frame=True)
    def _(ob, cx, o):
        image = aa.Array2D.no_mask(values=cx.values.copy(), pixel_scales=cx.ps, origin=org(o))
        for flag in (True, False):
            for sky in (0.0, 2.0):
                sim = aa.SimulatorImaging(
                    exposure_time=100.0,
                    background_sky_level=sky,
                    psf=aa.Kernel2D.no_mask(values=cx.kernel.copy(), pixel_scales=cx.ps, origin=org(o)),
                    add_poisson_noise_to_data=True,
                    include_poisson_noise_in_noise_map=flag,
                    noise_seed=1,
                )
                ds = sim.via_image_from(image=image)
                tag = "poisson_in_noise_map=%s,sky=%s" % (flag, sky)
                ob.array(tag + ":data", ds.data)
                ob.array(tag + ":noise_map", ds.noise_map)
                ob.grid(tag + ":grids.uniform", ds.grids.uniform)

    @ep("preprocess.noise_map_with_signal_to_noise_limit_from", frame=True)
    def _(ob, cx, o):
        full = aa.Mask2D.all_false(shape_native=cx.m.shape, pixel_scales=cx.ps, origin=org(o))
        data = aa.Array2D(values=cx.values.copy(), mask=full)
        noise = aa.Array2D(values=cx.noise.copy(), mask=full)
        nm = aa.preprocess.noise_map_with_signal_to_noise_limit_from(data=data, noise_map=noise, signal_to_noise_limit=5.0)
        ob.array("limited", nm)
        ob.coord("limited.grid", np.array(aa.Grid2D.from_mask(mask=nm.mask).slim))
        nm2 = aa.preprocess.noise_map_with_signal_to_noise_limit_from(data=data, noise_map=noise, signal_to_noise_limit=5.0, noise_limit_mask=cx.m.copy())
        ob.array("limited-with-mask", nm2)

    # ---- index-valued results on translated points
    @ep("geometry.pixel_coordinates_2d_from", frame=True)
    def _(ob, cx, o):
        geo = mk(cx, o).geometry
        pts = np.concatenate([cx.pts_rel.reshape(-1, 2), cx.far_rel]) + np.array(o)
        ob.same("pixel_coordinates", np.array([geo.pixel_coordinates_2d_from(scaled_coordinates_2d=_t(p)) for p in pts]))
        ob.coord("scaled_at_pixel_centre", np.array([geo.scaled_coordinate_2d_to_scaled_at_pixel_centre_from(scaled_coordinate_2d=_t(p)) for p in pts]))

    @ep("geometry.scaled_coordinates_2d_from", frame=True)
    def _(ob, cx, o):
        geo = mk(cx, o).geometry
        ob.coord("scaled_coordinates", np.array([geo.scaled_coordinates_2d_from(pixel_coordinates_2d=_t(p)) for p in cx.pix_pts]))
        mask = mk(cx, o)
        gp = aa.Grid2D(values=cx.pix_pts.reshape(cx.H, cx.W, 2).copy(), mask=mask)
        ob.coord("grid_scaled_2d_from", np.array(geo.grid_scaled_2d_from(grid_pixels_2d=gp).slim))

    @ep("geometry.grid_pixel_indexes_2d_from", frame=True)
    def _(ob, cx, o):
        mask = mk(cx, o)
        geo = mask.geometry
        g = aa.Grid2D(values=(cx.pts_rel + np.array(o)).copy(), mask=mask)
        idx = geo.grid_pixel_indexes_2d_from(grid_scaled_2d=g)
        ob.same("indexes", np.array(idx.slim))
        ob.mask("indexes", idx.mask)
        ob.same("centres", np.array(geo.grid_pixel_centres_2d_from(grid_scaled_2d=g).slim))
        ob.close("pixels(float)", np.array(geo.grid_pixels_2d_from(grid_scaled_2d=g).slim))
        pts = np.concatenate([cx.pts_rel.reshape(-1, 2), cx.far_rel]) + np.array(o)
        kw = dict(shape_native=cx.m.shape, pixel_scales=cx.ps, origin=o)
        ob.same("util.indexes", aa.util.geometry.grid_pixel_indexes_2d_slim_from(grid_scaled_2d_slim=pts.copy(), **kw))
        ob.same("util.centres", aa.util.geometry.grid_pixel_centres_2d_slim_from(grid_scaled_2d_slim=pts.copy(), **kw))
        ob.close("util.pixels(float)", aa.util.geometry.grid_pixels_2d_slim_from(grid_scaled_2d_slim=pts.copy(), **kw))

    # ---- the same points in containers that carry an origin of their OWN: every conversion route of a geometry must
    # use the geometry's origin, whatever the container says, and all container forms must give identical answers
    def containers(cx, o, native, extra):
        """The points `native` ([H, W, 2]; `extra` [4, 2] more for the slim forms) in every container form:
        (tag, builder, is Grid2D, number of leading points shared with the reference form)."""
        H, W = cx.H, cx.W
        n = H * W
        slim = native.reshape(-1, 2)
        more = np.concatenate([slim, extra])

        def full(oo):
            return aa.Mask2D.all_false(shape_native=(H, W), pixel_scales=cx.ps, origin=org(oo))

        return [
            ("Grid2D(mask=own)", lambda: aa.Grid2D(values=native.copy(), mask=full(o))),
            ("Grid2D(mask=of-base-origin)", lambda: aa.Grid2D(values=native.copy(), mask=full(cx.o))),
            ("Grid2D.no_mask[native]", lambda: aa.Grid2D.no_mask(values=native.copy(), pixel_scales=cx.ps)),
            ("Grid2D.no_mask[native,origin=other]", lambda: aa.Grid2D.no_mask(values=native.copy(), pixel_scales=cx.ps, origin=org(CONTAINER_ORIGIN))),
            ("Grid2D.no_mask[slim,1xN]", lambda: aa.Grid2D.no_mask(values=more.copy(), shape_native=(1, n + 4), pixel_scales=1.0)),
            ("Grid2D.no_mask[slim,origin=own]", lambda: aa.Grid2D.no_mask(values=slim.copy(), shape_native=(H, W), pixel_scales=cx.ps, origin=org(o))),
            ("Grid2D.from_yx_1d", lambda: aa.Grid2D.from_yx_1d(y=more[:, 0].copy(), x=more[:, 1].copy(), shape_native=(n + 4, 1), pixel_scales=(2.0, 0.5))),
            ("Grid2D.from_yx_1d[lists,origin=other]", lambda: aa.Grid2D.from_yx_1d(y=slim[:, 0].tolist(), x=slim[:, 1].tolist(), shape_native=(W, H), pixel_scales=cx.ps, origin=org(CONTAINER_ORIGIN))),
            ("Grid2D.from_yx_2d", lambda: aa.Grid2D.from_yx_2d(y=native[:, :, 0].copy(), x=native[:, :, 1].copy(), pixel_scales=cx.ps)),
            ("Grid2D.from_yx_2d[origin=other]", lambda: aa.Grid2D.from_yx_2d(y=native[:, :, 0].copy(), x=native[:, :, 1].copy(), pixel_scales=0.25, origin=org(CONTAINER_ORIGIN))),
            ("ndarray", lambda: slim.copy()),
            ("Grid2DIrregular", lambda: aa.Grid2DIrregular(values=slim.copy())),
        ]

    def routes_on_containers(ob, cx, o, geos, routes, forms):
        """Every route of every geometry on every container form.  Observed: the values (kind given by the route), the
        mask the result is wrapped in (the container's, whose origin does not move unless the container is built on the
        translated origin), and that every Grid2D form gives exactly the values of the first form."""
        n = cx.H * cx.W
        for gtag, geo in geos:
            for route, arg, kind in routes:
                ref = None
                for tag, build in forms:
                    name = "%s.%s(%s)" % (gtag, route, tag)

                    def one(tag=tag, build=build, name=name):
                        nonlocal ref
                        res = getattr(geo, route)(**{arg: build()})
                        vals = np.array(res.slim)
                        getattr(ob, kind)(name, vals)
                        ob.same(name + ".mask", np.array(res.mask))
                        ob.same(name + ".mask.pixel_scales", res.mask.pixel_scales)
                        if "own" in tag:
                            ob.coord(name + ".mask.origin", res.mask.origin)
                        else:
                            ob.same(name + ".mask.origin", res.mask.origin)
                        if ref is None:
                            ref = vals[:n].copy()
                        else:
                            ob.must(name + " == the same points in " + forms[0][0], vals.shape[1:] == ref.shape[1:] and np.array_equal(vals[:n], ref))

                    ob.sub(name, one)

    SCALED_ROUTES = [
        ("grid_pixel_indexes_2d_from", "grid_scaled_2d", "same"),
        ("grid_pixel_centres_2d_from", "grid_scaled_2d", "same"),
        ("grid_pixels_2d_from", "grid_scaled_2d", "close"),
    ]

    def geometries(cx, o):
        return [
            ("mask.geometry", mk(cx, o).geometry),
            ("Geometry2D", aa.Geometry2D(shape_native=cx.m.shape, pixel_scales=cx.ps, origin=o)),
        ]

    @ep("geometry.grid_pixel_indexes_2d_from", frame=True, key="geometry.grid_pixel_indexes_2d_from[containers]")
    def _(ob, cx, o):
        sh = np.array(o)
        forms = [(t, b) for t, b in containers(cx, o, cx.pts_rel + sh, cx.far_rel + sh)]
        routes_on_containers(ob, cx, o, geometries(cx, o), SCALED_ROUTES, forms)
        # a regular lattice laid over a translated extent (Grid2D.from_extent: its mask always has origin (0,0))
        x0, x1, y0, y1 = cx.lattice_rel
        ext = (x0 + o[1], x1 + o[1], y0 + o[0], y1 + o[0])
        lattice = aa.Grid2D.from_extent(extent=ext, shape_native=(3, 4))
        pts = np.array(lattice.native)
        lforms = [
            ("Grid2D.no_mask[lattice points,origin=own]", lambda: aa.Grid2D.no_mask(values=pts.copy(), pixel_scales=cx.ps, origin=org(o))),
            ("Grid2D.from_extent", lambda: aa.Grid2D.from_extent(extent=ext, shape_native=(3, 4))),
        ]
        for gtag, geo in geometries(cx, o):
            for route, arg, kind in SCALED_ROUTES:
                ref = None
                for tag, build in lforms:
                    name = "%s.%s(%s)" % (gtag, route, tag)
                    res = getattr(geo, route)(**{arg: build()})
                    vals = np.array(res.slim)
                    getattr(ob, kind)(name, vals)
                    if ref is None:
                        ref = vals
                    else:
                        ob.must(name + " == the same points in " + lforms[0][0], np.array_equal(vals, ref))

    @ep("geometry.scaled_coordinates_2d_from", frame=True, key="geometry.scaled_coordinates_2d_from[containers]")
    def _(ob, cx, o):
        # pixel coordinates do not move with the origin; the containers' own origins must play no role either
        native = cx.pix_pts.reshape(cx.H, cx.W, 2)
        extra = np.array([[-1.3, 0.2], [cx.H + 0.7, 0.3], [0.3, cx.W + 2.2], [0.2, -1.4]])
        forms = [(t, b) for t, b in containers(cx, o, native, extra)]
        routes_on_containers(ob, cx, o, geometries(cx, o), [("grid_scaled_2d_from", "grid_pixels_2d", "coord")], forms)

    # keep the positions of the older entry points in the list (special_plan rotates over them by position)
    E["Grid2D.grid_2d_radial_projected_from[options]"] = E.pop("Grid2D.grid_2d_radial_projected_from[options]")
    return E


_EP_CACHE = {}


def _eps(aa):
    if "S" not in _EP_CACHE:
        _EP_CACHE["S"] = s_entry_points(aa)
    return _EP_CACHE["S"]


# entry-point functions that run on a fraction of the S cases only: key -> n, meaning the cases with (bits + fi) % n == 0
# (every T case runs them).  The fixed-offset fit builds one more masked, over-sampled dataset per origin.
SPARSE = {"FitDataset.grids(DatasetModel.grid_offset)[fixed-offset]": 4}


def frame_level_bits(bits):
    """Mask patterns on which the entry points that do not depend on which pixels are masked are also run."""
    return bits == 1 or bits % 64 == 63


def nd_selected(fi, bits, si, oi):
    """The ndarray-origin / shared-object pass runs on exactly one (scale, origin) combination of every (frame, mask)."""
    if fi == 0:
        return si == bits % 3 and oi == (bits // 3) % 2
    if fi < len(FRAMES3):
        combos = sorted({((bits + fi) % 3, bits % 2), ((bits + fi + 1) % 3, (bits + 1) % 2)})
        return (si, oi) == combos[(bits // 2) % len(combos)]
    return bits % 3 == 0


def _agree(v, name, A, B, tol):
    """True iff two observation lists of one entry point at the SAME origin are identical (checks are counted)."""
    probe = V(ID)
    compare(Once(probe), name, A, B, (0.0, 0.0), tol, relations=False)
    v.v.checks += probe.checks
    return not probe.violations


def history_grid(aa, v, cx, o):
    """(A) parent.over_sampler is READ, then grids are derived from the parent: whatever the parent cached must not
    travel to the child.  child(read parent) must equal child(unread parent); subtracted_from is a translation by
    -offset, so every coordinate of the child (and of its over sampler) is the parent's moved by -offset."""
    off = cx.offset
    d = (-off[0], -off[1])
    tol = 1e-9 * (1.0 + max(abs(off[0]), abs(off[1])) + max(abs(o[0]), abs(o[1])))

    def parent():
        mask = aa.Mask2D(mask=cx.m.copy(), pixel_scales=cx.ps, origin=o)
        return aa.Grid2D.from_mask(mask=mask, over_sampling=aa.OverSamplingUniform(sub_size=2))

    def observe(ob, g):
        ob.grid("grid", g)
        ob.coord("grid.origin", g.origin)
        osr = g.over_sampler
        ob.same("over_sampler.mask", np.array(osr.mask))
        ob.coord("over_sampler.mask.origin", osr.mask.origin)
        ob.coord("over_sampler.over_sampled_grid", np.array(osr.over_sampled_grid))
        ob.same("over_sampler.slim_for_sub_slim", np.array(osr.slim_for_sub_slim))

    derive = {
        "Grid2D.subtracted_from": lambda g: g.subtracted_from(offset=off),
        "Grid2D.padded_grid_from": lambda g: g.padded_grid_from(kernel_shape_native=(3, 3)),
    }
    warm = parent()
    pre = run_entry(observe, warm)  # reads (and caches) the parent's over sampler
    for name, fn in derive.items():
        child_warm = run_entry(lambda ob: observe(ob, fn(warm)))
        child_cold = run_entry(lambda ob: observe(ob, fn(parent())))
        if name == "Grid2D.subtracted_from":
            compare(v, name, pre, child_cold, d, tol, labels=("parent", "parent.subtracted_from(offset), d=-offset"))
        compare(v, name + ":over_sampler-after-read", child_cold, child_warm, (0.0, 0.0), tol, labels=("derived from an unread parent", "derived after parent.over_sampler was read"))
    compare(v, "Grid2D.subtracted_from:parent-changed", pre, run_entry(observe, warm), (0.0, 0.0), tol, labels=("parent before", "parent after deriving grids from it"))


def history_mask(aa, v, cx, o):
    """Read-then-derive on a mask: every geometry property of the parent is read, then masks are derived from it;
    the derived masks (observed through their own geometry) must equal those derived from an unread parent."""
    tol = 1e-9 * (1.0 + max(abs(o[0]), abs(o[1])))

    def parent():
        return aa.Mask2D(mask=cx.m.copy(), pixel_scales=cx.ps, origin=o)

    def observe(ob, mk):
        ob.mask("mask", mk)
        ob.sub("mask_centre", lambda: ob.coord("mask_centre", mk.mask_centre))
        ob.sub("unmasked", lambda: ob.coord("derive_grid.unmasked", np.array(mk.derive_grid.unmasked.slim)))
        ob.sub("zoom", lambda: ob.coord("zoom_offset_scaled", mk.zoom_offset_scaled))

    derive = {
        "Mask2D.resized_from": lambda m: m.resized_from(new_shape=(cx.H + 2, cx.W + 3), pad_value=1),
        "Mask2D.rescaled_from": lambda m: m.rescaled_from(rescale_factor=2.0),
        "Mask2D.derive_mask.blurring_from": lambda m: m.derive_mask.blurring_from(kernel_shape_native=(3, 3)),
    }
    warm = parent()
    _warm_mask(warm)
    pre = run_entry(observe, warm)
    for name, fn in derive.items():
        child_warm = run_entry(lambda ob: observe(ob, fn(warm)))
        child_cold = run_entry(lambda ob: observe(ob, fn(parent())))
        compare(v, name + ":after-read", child_cold, child_warm, (0.0, 0.0), tol, labels=("derived from an unread mask", "derived after the mask's geometry was read"))
    compare(v, "Mask2D:parent-changed-by-derivation", pre, run_entry(observe, warm), (0.0, 0.0), tol, labels=("mask before", "mask after deriving masks from it"))


def nd_pass(v, cx, E, o3, ref):
    """(B) one more evaluation of every entry point at origin o3 with (i) every origin handed to the library as a float
    ndarray and (ii) one mask / grid / array / dataset shared by all entry points, all their properties read first.
    Results must be identical to the cold tuple-origin results `ref` at the same origin, and no origin array may have
    been modified in place."""
    tol = 1e-12 * (1.0 + max(abs(o3[0]), abs(o3[1])))

    def mutation_check(who):
        bad = MODE.mutated()
        v.ok(
            not bad,
            "origin-mutated-by:" + who,
            lambda: "%s modified in place the origin array it was given: %s became %s" % (who, _short(bad[0][0]), _short(bad[0][1])),
        )

    MODE.set(ndarray=True, shared=True)
    MODE.on_read = mutation_check
    try:
        for k, (finding, _, fn) in E.items():
            got = run_entry(fn, cx, o3)
            mutation_check(finding)
            if _agree(v, finding, ref[k], got, tol):
                continue
            # attribute: the same entry point with ndarray origins but objects of its own
            keep = MODE.shared
            MODE.shared = None
            alone = run_entry(fn, cx, o3)
            MODE.mutated()
            MODE.shared = keep
            if not _agree(v, finding, ref[k], alone, tol):
                compare(v, finding + ":ndarray-origin-differs", ref[k], alone, (0.0, 0.0), tol, labels=("tuple origin", "same origin as float ndarray"), relations=False)
            else:
                compare(v, finding + ":after-read", ref[k], got, (0.0, 0.0), tol, labels=("objects built for this call", "shared objects whose properties were read before"), relations=False)
    finally:
        MODE.set()


def special_plan(keys, E, fi, bits, si, oi, sweep=False):
    """Which (entry point, special translation class) pairs a case runs.

    sweep : every entry point x every class.
    else  : entry point number k of the (fixed) entry point list meets class ((k + rot) // stride) % NSPECIAL iff
            (k + rot) % stride == 0, where rot is a deterministic function of the case; stride is 1 for the entry points
            that do not depend on the masked pixels (they run on few masks) and S_STRIDE for the others.  Over the
            cases every entry point meets every class (see the census in the module docstring)."""
    rot = 7 * bits + 5 * fi + 3 * si + oi + bits // 64
    out = []
    for k, key in enumerate(keys):
        if key not in E:
            continue
        if sweep:
            out.extend((key, j) for j in range(NSPECIAL))
            continue
        stride = 1 if E[key][1] else S_STRIDE
        if (k + rot) % stride == 0:
            out.append((key, ((k + rot) // stride) % NSPECIAL))
    return out


def run_S(aa, v0, case, sweep=False):
    _, fi, bits, si, oi, seed = case
    cx = Ctx(fi, bits, si, oi, seed)
    frame_level = frame_level_bits(bits)
    E = {k: e for k, e in _eps(aa).items() if (frame_level or not e[1]) and (sweep or (bits + fi) % SPARSE.get(k, 1) == 0)}
    o = cx.o
    v = Once(v0)
    MODE.set()
    cx.d = (0.0, 0.0)
    base = {k: run_entry(fn, cx, o) for k, (_, _, fn) in E.items()}
    raised = sorted(n for n, r in base.items() if isinstance(r, str))
    trans = []
    for d in D_MENU:
        tol = 1e-9 * (1.0 + max(abs(d[0]), abs(d[1])) + max(abs(o[0]), abs(o[1])))
        o2 = add(o, d)
        cx.d = d
        res = {}
        for k, (finding, _, fn) in E.items():
            res[k] = run_entry(fn, cx, o2)
            compare(v, finding, base[k], res[k], d, tol)
        trans.append(res)
    # translations with special structure, rotating over entry points and cases (every d of the menu: sweep=True)
    special = special_translations(cx.ps, o, cx.H, cx.W)
    for k, j in special_plan(list(_eps(aa).keys()), E, fi, bits, si, oi, sweep):
        d = special[j]
        tol = 1e-9 * (1.0 + max(abs(d[0]), abs(d[1])) + max(abs(o[0]), abs(o[1])))
        cx.d = d
        finding, _, fn = E[k]
        compare(v, finding, base[k], run_entry(fn, cx, add(o, d)), d, tol)
    if sweep:
        v0.nontrivial = True
        v0.outcome = "T:frame%dx%d:n%d:raises=%s" % (cx.H, cx.W, int((~cx.m).sum()), ",".join(raised) or "-")
        return
    history_grid(aa, v, cx, o)
    nd = nd_selected(fi, bits, si, oi)
    if nd:
        history_mask(aa, v, cx, o)
        j = (bits + fi) % (len(D_MENU) + 1)
        cx.d = (0.0, 0.0) if j == 0 else D_MENU[j - 1]
        nd_pass(v, cx, E, add(o, cx.d) if j else o, base if j == 0 else trans[j - 1])
    v = v0
    u = ~cx.m
    n = int(u.sum())
    rows = np.flatnonzero(u.any(axis=1))
    cols = np.flatnonzero(u.any(axis=0))
    box = u[rows[0] : rows[-1] + 1, cols[0] : cols[-1] + 1]
    v.nontrivial = n >= 2 and (not box.all() or box.shape[0] != box.shape[1] or dom.touches_frame(cx.m))
    v.outcome = "S:frame%dx%d:n%d:%s%sraises=%s" % (cx.H, cx.W, n, "+frame-level:" if frame_level else "", "+ndarray-shared:" if nd else "", ",".join(raised) or "-")


# ----------------------------------------------------------------------------------------------- M cases


def _quant(x):
    return np.round(np.asarray(x, dtype=float) / Q) * Q


def _rect_margin_ok(src, shape):
    """All source points >= 1e-6 (relative to the cell size) from every interior cell edge of the overlay."""
    for ax in (0, 1):
        lo = src[:, ax].min() - 1e-8
        hi = src[:, ax].max() + 1e-8
        t = (src[:, ax] - lo) / (hi - lo) * shape[ax]
        fr = np.abs(t - np.round(t))
        inner = (np.round(t) > 0) & (np.round(t) < shape[ax])
        if np.any(fr[inner] < 1e-6):
            return False
    return True


def _delaunay_margin_ok(pts, src):
    """Vertices in general position (empty-circle margin) and every source point strictly inside one triangle
    with barycentric margin (or strictly outside the hull with nearest-vertex margin)."""
    import itertools

    n = len(pts)
    tris = []
    for a, b, c in itertools.combinations(range(n), 3):
        A, B, C = pts[a], pts[b], pts[c]
        det = (B[0] - A[0]) * (C[1] - A[1]) - (B[1] - A[1]) * (C[0] - A[0])
        if abs(det) < 1e-3:
            return False  # (nearly) collinear vertices: a sliver triangle Qhull may or may not keep
        # circumcentre
        a2, b2, c2 = A @ A, B @ B, C @ C
        ux = (a2 * (B[1] - C[1]) + b2 * (C[1] - A[1]) + c2 * (A[1] - B[1])) / (2 * ((A[0] * (B[1] - C[1]) + B[0] * (C[1] - A[1]) + C[0] * (A[1] - B[1]))))
        uy = (a2 * (C[0] - B[0]) + b2 * (A[0] - C[0]) + c2 * (B[0] - A[0])) / (2 * ((A[0] * (B[1] - C[1]) + B[0] * (C[1] - A[1]) + C[0] * (A[1] - B[1]))))
        cc = np.array([ux, uy])
        r = np.sqrt(((A - cc) ** 2).sum())
        dist = np.sqrt(((pts - cc) ** 2).sum(axis=1))
        others = np.ones(n, bool)
        others[[a, b, c]] = False
        gap = dist[others] - r
        if np.any(np.abs(gap) < 1e-5 * (1 + r)):
            if r < 1e3:
                return False
        if np.all(gap > 0):
            tris.append((a, b, c))
    if not tris:
        return False
    for p in src:
        inside = False
        for a, b, c in tris:
            T = np.array([[pts[a][0] - pts[c][0], pts[b][0] - pts[c][0]], [pts[a][1] - pts[c][1], pts[b][1] - pts[c][1]]])
            l = np.linalg.solve(T, p - pts[c])
            lam = np.array([l[0], l[1], 1 - l[0] - l[1]])
            if np.all(lam > 1e-6):
                inside = True
                break
            if np.all(lam > -1e-6):
                return False  # on / too near an edge
        if not inside:
            dd = np.sort(np.sqrt(((pts - p) ** 2).sum(axis=1)))
            if dd[1] - dd[0] < 1e-6:
                return False
    return True


def _canon_rows(idx, sizes, w):
    """Rows of (pixel index, weight) tables sorted by pixel index; unused slots blanked."""
    idx = np.array(idx)
    w = np.array(w, dtype=float)
    sizes = np.array(sizes).astype(int)
    ci = np.full(idx.shape, -1, dtype=int)
    cw = np.zeros(idx.shape)
    for r in range(idx.shape[0]):
        s = sizes[r]
        order = np.argsort(idx[r, :s], kind="stable")
        ci[r, :s] = idx[r, :s][order]
        cw[r, :s] = w[r, :s][order]
    return ci, cw


def _unique_dense(um, n, p):
    D = np.zeros((n, p))
    lens = np.array(um.pix_lengths).astype(int)
    for i in range(n):
        for j in range(lens[i]):
            D[i, int(um.data_to_pix_unique[i, j])] += um.data_weights[i, j]
    return D


def m_config(fi, bits, sub, si, oi, seed):
    m = frame_mask(fi, bits)
    n = int((~m).sum())
    if sub == 0:
        subs = np.ones(n, dtype=int)
    elif sub == 1:
        subs = np.full(n, 2, dtype=int)
    else:
        subs = 1 + (np.arange(n) % 3)
    if int((subs ** 2).sum()) < 3:
        # one or two source points make the overlaid rectangular mesh degenerate (the point sits exactly on the
        # centre line, i.e. on a cell edge of an even-sized mesh): a floating-point tie, excluded
        subs = np.full(n, 2, dtype=int)
    ns = int((subs ** 2).sum())
    for salt in range(500):
        rg = dom.rng(seed, "C12", "M", fi, bits, sub, si, oi, salt)
        src = _quant(rg.uniform(-2.0, 2.0, size=(ns, 2)) * np.array([1.0, 1.5]))
        gy, gx = np.meshgrid([-2.6, 0.0, 2.6], [-3.6, 0.0, 3.6], indexing="ij")
        pts = _quant(np.stack([gy.ravel(), gx.ravel()], axis=-1) + rg.uniform(-0.5, 0.5, size=(9, 2)))
        keep = np.ones(9, bool)
        if bits % 3 == 0:
            keep[[0, 8]] = False  # smaller hull: some source points fall outside it (nearest-vertex branch)
        pts = pts[keep]
        if ns >= 1 and _rect_margin_ok(src, (3, 3)) and _rect_margin_ok(src, (2, 4)) and _delaunay_margin_ok(pts, src):
            return m, subs, src, pts
    raise RuntimeError("no general-position configuration found")


def observe_mappers(aa, m, subs, src_rel, pts_rel, ps, o):
    out = {}
    mask = aa.Mask2D(mask=m.copy(), pixel_scales=ps, origin=o)
    sub = aa.Array2D(values=subs.copy(), mask=mask)
    sh = np.array(o)

    def mapper_obs(ob, mesh, os_, src):
        mp = aa.Mapper(
            mapper_grids=aa.MapperGrids(mask=mask, source_plane_data_grid=src, source_plane_mesh_grid=mesh),
            over_sampler=os_,
            regularization=None,
        )
        ob.same("mapper-class", type(mp).__name__)
        idx = np.array(mp.pix_indexes_for_sub_slim_index)
        sizes = np.array(mp.pix_sizes_for_sub_slim_index)
        w = np.array(mp.pix_weights_for_sub_slim_index)
        ci, cw = _canon_rows(idx, sizes, w)
        ob.same("pix_sizes_for_sub_slim_index", sizes)
        ob.same("pix_indexes_for_sub_slim_index", ci)
        ob.close("pix_weights_for_sub_slim_index", cw)
        ob.same("slim_index_for_sub_slim_index", np.array(mp.slim_index_for_sub_slim_index))
        M = np.array(mp.mapping_matrix)
        ob.close("mapping_matrix", M)
        ob.same("mapping_matrix.sparsity", M != 0)
        ob.close("unique_mappings(dense)", _unique_dense(mp.unique_mappings, M.shape[0], M.shape[1]))
        ob.same("params", int(mp.params))
        return mp

    def rect(shape):
        def f(ob):
            os_ = aa.OverSamplerUniform(mask=mask, sub_size=sub)
            src = aa.Grid2DIrregular(values=src_rel + sh)
            mesh = aa.Mesh2DRectangular.overlay_grid(shape_native=shape, grid=src)
            ob.coord("mesh", np.array(mesh))
            ob.coord("mesh.origin", mesh.origin)
            ob.close("mesh.pixel_scales", mesh.pixel_scales)
            ob.extent("mesh.extent", mesh.geometry.extent)
            mapper_obs(ob, mesh, os_, src)
            nb = mesh.neighbors
            ob.same("neighbors", np.array(nb))
            ob.same("neighbors.sizes", np.array(nb.sizes))

        return f

    def dela(ob):
        os_ = aa.OverSamplerUniform(mask=mask, sub_size=sub)
        src = aa.Grid2DIrregular(values=src_rel + sh)
        mesh = aa.Mesh2DDelaunay(values=pts_rel + sh)
        mapper_obs(ob, mesh, os_, src)
        nb = mesh.neighbors
        sz = np.array(nb.sizes).astype(int)
        P = len(pts_rel)
        adj = np.zeros((P, P), dtype=bool)
        for i in range(P):
            for j in np.array(nb)[i][: sz[i]]:
                adj[i, int(j)] = True
        ob.same("neighbors(adjacency)", adj)

    out["MapperRectangular[3x3]"] = run_entry(lambda ob: rect((3, 3))(ob))
    out["MapperRectangular[2x4]"] = run_entry(lambda ob: rect((2, 4))(ob))
    out["MapperDelaunay"] = run_entry(dela)
    return out


def m_special(bits, sub, si, oi):
    return (bits // 8 + 5 * sub + 2 * si + oi) % NSPECIAL


def run_M(aa, v, case):
    _, fi, bits, sub, si, oi, seed = case
    ps, o = PS_MENU[si], O_MENU[oi]
    m, subs, src, pts = m_config(fi, bits, sub, si, oi, seed)
    base = observe_mappers(aa, m, subs, src, pts, ps, o)
    v0, v = v, Once(v)
    for d in D_MENU:
        tol = 1e-9 * (1.0 + max(abs(d[0]), abs(d[1])) + max(abs(o[0]), abs(o[1])))
        other = observe_mappers(aa, m, subs, src, pts, ps, add(o, d))
        for name in base:
            compare(v, name.split("[")[0], base[name], other[name], d, tol)
    # one translation with special structure, rotating with the case
    H, W = m.shape
    d = special_translations(ps, o, H, W)[m_special(bits, sub, si, oi)]
    tol = 1e-9 * (1.0 + max(abs(d[0]), abs(d[1])) + max(abs(o[0]), abs(o[1])))
    other = observe_mappers(aa, m, subs, src, pts, ps, add(o, d))
    for name in base:
        compare(v, name.split("[")[0], base[name], other[name], d, tol)
    v = v0
    v.nontrivial = True
    v.outcome = "M:sub%d:n%d:%s" % (sub, int((~m).sum()), ",".join(sorted(k for k, r in base.items() if isinstance(r, str))) or "-")


# ----------------------------------------------------------------------------------------------- H cases


def circular_ok(side, radius_pix):
    c = (side - 1) / 2.0
    ii, jj = np.meshgrid(np.arange(side), np.arange(side), indexing="ij")
    r = np.sqrt((ii - c) ** 2 + (jj - c) ** 2)
    return bool(np.all(np.abs(r - radius_pix) > 1e-6))


def observe_hilbert(aa, side, rpix, ps, o, pixels, g, h):
    def f(ob):
        mask = aa.Mask2D.circular(shape_native=(side, side), radius=rpix * ps, pixel_scales=ps, origin=o)
        ob.mask("Mask2D.circular", mask)
        ob.same("is_circular", bool(mask.is_circular))
        ob.close("circular_radius", float(mask.circular_radius))
        adapt = aa.Array2D.no_mask(values=g[:, None] + h[None, :], pixel_scales=ps, origin=o)
        hb = aa.image_mesh.Hilbert(pixels=pixels, weight_floor=0.1, weight_power=1.0)
        mesh = hb.image_plane_mesh_grid_from(mask=mask, adapt_data=adapt)
        ob.coord("mesh_grid", np.array(mesh).reshape(-1, 2))

    return run_entry(f)


def h_specials(ri, pi, oi, pixels):
    """H_SPECIALS consecutive classes per case; the 12 quick cases cover every class H_SPECIALS times."""
    idx = ri * 4 + pi * 2 + oi + (0 if pixels == 8 else 2)
    return [(H_SPECIALS * idx + t) % NSPECIAL for t in range(H_SPECIALS)]


def run_H(aa, v, case):
    _, ri, pi, oi, pixels, seed = case
    side, rpix = HILBERT_R[ri]
    ps, o = HILBERT_PS[pi], O_MENU[oi]
    if not circular_ok(side, rpix):
        raise RuntimeError("radius menu entry on a tie")
    rg = dom.rng(seed, "C12", "H", ri, pi)
    g = np.round(rg.uniform(0.5, 3.0, size=side), 3)
    h = np.round(rg.uniform(0.5, 3.0, size=side), 3)
    base = observe_hilbert(aa, side, rpix, ps, o, pixels, g, h)
    v0, v = v, Once(v)
    for d in D_MENU:
        tol = 1e-9 * (1.0 + max(abs(d[0]), abs(d[1])) + max(abs(o[0]), abs(o[1])))
        compare(v, "image_mesh.Hilbert", base, observe_hilbert(aa, side, rpix, ps, add(o, d), pixels, g, h), d, tol)
    special = special_translations((ps, ps), o, side, side)
    for j in h_specials(ri, pi, oi, pixels):
        d = special[j]
        tol = 1e-9 * (1.0 + max(abs(d[0]), abs(d[1])) + max(abs(o[0]), abs(o[1])))
        compare(v, "image_mesh.Hilbert", base, observe_hilbert(aa, side, rpix, ps, add(o, d), pixels, g, h), d, tol)
    v = v0
    v.nontrivial = True
    v.outcome = "H:side%d:%s" % (side, base if isinstance(base, str) else "ok")


# ----------------------------------------------------------------------------------------------- entry


def run_case(case):
    import autoarray as aa

    v = V(ID)
    kind = case[0]
    if kind == "S":
        run_S(aa, v, case)
    elif kind == "T":
        run_S(aa, v, case, sweep=True)
    elif kind == "M":
        run_M(aa, v, case)
    elif kind == "H":
        run_H(aa, v, case)
    else:
        raise ValueError("unknown case kind %r" % (kind,))
    return v.result()
