"""C18 - border relocation only pulls outliers radially inward to the border.

Reference model (independent of autoarray, written from the property statement):

* sub-grid: slim pixel k = k-th unmasked pixel (i, j) in row-major order, sub-size s_k; its sub-pixel (a, b)
  (row a from the top, column b from the left) has sub-slim index  sum_{k'<k} s_k'^2 + a*s_k + b  and pixel-unit
  position  y = (cy - i) + 0.5 - (a + 0.5)/s_k ,  x = (j - cx) - 0.5 + (b + 0.5)/s_k  with (cy, cx) = ((H-1)/2, (W-1)/2);
  scaled position = pixel-unit position * pixel_scales + origin.
* border pixel (as in C10): an unmasked pixel that has a masked pixel among its in-array 8-neighbours (MUST) and from
  which a straight walk to the array boundary in >= 1 of the 4 axis directions meets only masked pixels.  Unmasked
  pixels on the outer row/column without any masked in-array neighbour are FREE (C10's latitude: either answer).
* sub_border_slim[b] must be a sub-pixel OF the b-th border pixel (row-major) and one whose pixel-unit distance from
  the centre of the bounding box of the unmasked pixels is maximal (ties within 1e-9 accepted).
* relocation law for (border point set B, input point p, output point q), c = mean(B), r(.) = |. - c|:
    - r(p) <= min r(B)                 =>  q == p bit for bit
    - q lies on the ray c -> p          (|cross| <= tol, dot >= -tol)
    - r(q) <= r(p)                      (never outward)
    - r(q) == min(r(p), r(b*))  for a border point b* nearest to p (every b with |p-b| within 1e-9 of the minimum
      is accepted)
    - r(q) <= max r(B)
    - the output has the shape of the input, entry k belongs to input k.
  B is the set of INPUT source-plane coordinates at the library's own sub_border_slim indices (validated above), for
  the data grid and for mesh vertices alike.  B is a LIST with one point per border pixel: when the source-plane map is
  many-to-one and several border (sub-)pixels land on exactly the same coordinate, that coordinate counts once per
  border pixel in the centroid (the mean is over border pixels, not over distinct coordinates).
* the law does not depend on the entry point: BorderRelocator.relocated_grid_from / relocated_mesh_grid_from,
  mesh.relocated_grid_from / relocated_mesh_grid_from and mesh.mapper_grids_from(border_relocator=...) are each checked
  against it; where it determines the output (one nearest border point) two entry points given the same grid therefore
  return the same point up to the tolerance of the law (`differs-from-direct-call`).
* "outside the border" is a statement about radii (own radius > radius of the nearest border point), NOT about the
  bounding box of the border: a source plane can have all its outliers inside the box [min B, max B] (diagonal corners
  around a roundish border, the notch of a non-convex one).  The in-box source planes (`inbox_menu`) contain no
  coordinate beyond the box.
"""
import math

import numpy as np

from mc import dom
from mc.core import V

ID = "C18"
ENGINE = "scope"
CHUNK = 16
RULE = (
    "cases = every boolean mask with >= 1 unmasked pixel of every frame in the tier's frame list (frames are NOT "
    "restricted to a masked outer ring) x sub-size map (uniform 1, 2, 3 given as int; two per-pixel Array2D maps); per "
    "case the sub-border indices / border grids are checked once and every source-plane transform of the menu "
    "(identity, jittered identity, x0.5, x3, shear, rotate+far shift, central blow-up, fold, collapse to a line, "
    "collapse to a point; and the EXACTLY many-to-one maps of the lattice of sub-pixel centres, under which several border "
    "(sub-)pixels receive bit-for-bit the same coordinate: fold y->|y|, fold x->|x|, fold both, fold about the diagonal, "
    "projection onto the y axis, projection onto the diagonal line, rounding to a coarse lattice of 2 and of 1.5 pixels, "
    "constant map of the upper half plane, clamp of the upper part onto a horizontal line - each followed by a seed-drawn "
    "injective affine map, half of them with one jitter draw per DISTINCT image point; in the quick tier the menu is "
    "rotated over the cases, see BOUNDS) is pushed through relocated_grid_from (outliers substituted for non-border points), "
    "relocated_mesh_grid_from (full outlier / on-border / interior vertex menu) and, for two transforms, through "
    "mesh.relocated_grid_from and mesh.Rectangular / mesh.Delaunay / mesh.Voronoi mapper_grids_from with and without the "
    "relocator (same mesh objects, default preloads), then a third transform through the same entry points: call k must "
    "relocate the grid of call k (own-grid relocation law; a result that is bitwise an earlier call's result for a different "
    "grid is reported as `second-call-different-grid`); finally an INTEGER-dtype source plane (24 x pixel-unit sub-grid "
    "under a seed-drawn integer linear map + shift, 12 integer outliers (9 seed-rotated + 3 lattice directions) substituted for non-border "
    "points, integer mesh vertices: outliers, border points, interior points) through relocated_grid_from, "
    "relocated_mesh_grid_from and the mesh entry points, classes suffixed `:int-dtype`; and IN-BOX source planes (ids "
    "`x:<base transform>`, classes suffixed `:in-box`): the source plane of a base transform in which NO coordinate lies beyond "
    "the bounding box of the border points - non-border points are replaced by the in-box menu (box corners pulled 1 / 5 / 10 % "
    "inside, every corner with every fraction, the 4 corners themselves, one point 1 % inside every side, <= 8 border points "
    "pushed outward x{1.05, 1.3, 2} along their ray and clipped into the box, <= 8 midpoints of pairs of border points: the "
    "diagonal corners around a roundish border, the notch of a non-convex one), the remaining ones are clipped into the box, the "
    "mesh vertices are the whole menu + the border points - pushed through BorderRelocator.relocated_grid_from / "
    "relocated_mesh_grid_from (law) and through mesh.relocated_grid_from, mesh.relocated_mesh_grid_from, "
    "Rectangular.mapper_grids_from and Delaunay.mapper_grids_from (data grid and mesh vertices; thorough, bases shear and "
    "blow-up: all three calls on Rectangular, Delaunay and Voronoi): each must obey the law for ITS grid and agree with the direct call wherever the law "
    "determines the output (`differs-from-direct-call`; a result bitwise equal to the direct call's checked result passes both); "
    "non-trivial = the border "
    "has >= 3 points and in this case some point was pulled inward AND some point lying outside the smallest border "
    "radius was legitimately left where it was (its nearest border point is not closer to the centroid)"
)
ASSUMPTIONS = [
    "the relocation rule is a per-point function of (border point set, point); the point menu (outliers at "
    "{1.0001, 2, 50} x r_max in 8 seed-rotated directions, points bitwise on border points, the centroid, points at "
    "r_min*(1 -+ 1e-6), at the mid radius (r_min+r_max)/2 and at r_min/2) hits every branch of the rule",
    "the border point set depends on the mask only through sub_border_slim; border shapes are exhausted over all masks "
    "of the listed frames, source-plane distortions enter through a finite menu of linear, non-linear, many-to-one "
    "and degenerate maps with seed-drawn coefficients and per-point jitter (jitter removes lattice ties so the "
    "nearest border point is unique; the un-jittered identity keeps the ties, where either radius is accepted)",
    "one (seed-chosen) anisotropic pixel scale and non-zero origin per run: geometry enters the sub-grid affinely",
    "FREE pixels (on the outer row/column, no masked in-array neighbour) may or may not be border pixels (C10 latitude)",
    "integer-dtype inputs: the law is about VALUES; the dtype of the output is not prescribed (an integer output whose "
    "values obey the law - e.g. nothing had to move - passes, a truncated one fails the radius / on-ray clauses)",
    "Delaunay and Voronoi share Triangulation.mapper_grids_from: both are run for the two main transforms, one of them "
    "(chosen by the parity of the number of unmasked pixels) for the third call or the integer grid",
    "the repeated relocated_mesh_grid_from call on the previous transform's grid (relocator reuse) uses every 3rd vertex",
    "many-to-one source planes: coincidence of border points is produced on the integer lattice of sub-pixel centres "
    "(24 x pixel units, exact for sub-sizes <= 4) and carried to floats per DISTINCT lattice point, so coinciding points are "
    "bitwise equal; the reference centroid / radii use one point per border pixel (multiplicity kept), as the property "
    "defines the border of the data grid; fold lines / lattice anchors sit at the bounding-box centre plus a seed-drawn "
    "offset of 0 or half a pixel per axis",
    "quick tier only: the transform menu is ROTATED over the cases instead of taken in full product (see BOUNDS); which "
    "transforms a case runs is part of the case (its last entry) and does not depend on the seed",
    "in-box source planes: outliers can only be planted at NON-border points of the data grid, so masks whose unmasked "
    "pixels are all border pixels carry them with sub-sizes > 1 (and always as mesh vertices) - the outcome census counts the "
    "cases whose in-box DATA grid had a point that must move (`in-box-moved`); whether a menu point is outside the border is "
    "decided by the law, not by construction (a border that fills its box has no in-box outlier); the in-box values continue "
    "the case's many-to-one random stream, so they depend on the case (its plan) and the seed only",
    "Triangulation.mapper_grids_from relocates through the mesh's own relocated_grid_from / relocated_mesh_grid_from, so in "
    "the quick tier the in-box planes call those two on the rectangular mesh only and reach them on Delaunay through its "
    "mapper_grids_from; Voronoi (same code path as Delaunay) and the direct calls on the triangulation meshes join in the "
    "thorough tier for the bases shear and blow-up",
]
BOUNDS = {
    "quick": "all masks of all frames with <= 9 cells (3 187 masks, incl. 1xN, Nx1, 3x3) + all 511 masks of the 3x3 "
    "interior of a 5x5 frame, each x 5 sub-size maps; all 8 190 masks of the 3x4 and 4x3 frames x 2 sub-size maps "
    "(uniform 2, per-pixel A); x (10 float source-plane transforms out of a menu of 20, see below, + 1 integer-dtype "
    "source plane) x (data grid + 50..80 mesh vertices); mesh entry points called 3-4 times per mesh object inside one "
    "case. Transform menu = 10 earlier transforms + 10 exactly many-to-one transforms (coinciding border points); to keep the "
    "cost of the tier where it was (10 float transforms per case on average), the menu is ROTATED over the cases instead "
    "of taken in full product: id, x3, shear, blow-up (lattice ties and everything that goes through the mesh entry "
    "points) run in every case; masks enumerated with 5 sub-size maps run, per sub-size map, a cyclic window of 4 of the "
    "other 6 earlier transforms and of 2 of the 10 many-to-one transforms, placed so that EVERY MASK meets all 20 "
    "transforms (each many-to-one transform with exactly one sub-size map, each earlier one with 3-5); masks of the 3x4 "
    "/ 4x3 frames (2 sub-size maps) run 3 of the other 6 earlier transforms per sub-size map (every mask meets all 10 "
    "earlier transforms, the rotated ones with one of its two sub-size maps) and 3 of the 10 many-to-one transforms per "
    "sub-size map (6 of 10 per mask), the window advancing with the number of the mask inside its mask class (frame, "
    "number of unmasked / border / optional-border pixels), so that every mask class with >= 2 masks (405 of the 409 classes of "
    "the tier) meets all 20 transforms (the 4 one-mask classes of these two frames - the full frame and the frame "
    "without its four corners - meet 16). "
    "In-box source planes (no coordinate beyond the bounding box of the border): ONE of the 10 base transforms per case, "
    "rotated - base number (mask number + 2 x sub-size-map number) mod 10 for masks with 5 sub-size maps (5 bases per mask, all "
    "10 over two consecutive masks), (number of the mask in its class + 5 x sub-size-map number) mod 10 for the 3x4 / 4x3 frames "
    "(2 bases per mask, all 10 over 5 consecutive masks of a class); 20 + 2 min(8, nb) menu points, data grid + (menu + nb + 2) "
    "mesh vertices, 2 direct + 4 mesh entry-point calls. "
    "The full product is in the thorough tier",
    "thorough": "FULL product masks x sub-size maps x all 20 float transforms (10 earlier + 10 many-to-one) + 1 integer-dtype "
    "source plane + 10 in-box source planes (bases shear and blow-up through every mesh entry point of Rectangular, Delaunay and "
    "Voronoi), no rotation, on: quick's masks + all masks of the 2x5, 5x2, 2x6, 6x2, 3x4, 4x3 frames x 5 sub-size maps; and with "
    "the menu rotating from mask to mask as in quick (4 fixed + 4 or 3 rotating + 2 or 3 many-to-one + 1 in-box per case) on all "
    "65 535 masks of the 4x4 frame x 2 sub-size maps (uniform 2, per-pixel A) and all 65 535 masks of the 4x4 interior of a "
    "6x6 frame x uniform 1",
}

SUBMAPS = ["u1", "u2", "u3", "pA", "pB"]
TRANSFORMS = ["id", "idj", "mag0.5", "mag3", "shear", "rotshift", "blowup", "fold", "line", "point"]
MAPPER_TRANSFORMS = ("shear", "blowup")
THIRD_TRANSFORM = "mag3"
# exactly many-to-one maps of the lattice of sub-pixel centres (several border sub-pixels -> bitwise one coordinate)
M2O = ["m:fold-y", "m:fold-x", "m:fold-yx", "m:fold-diag", "m:proj-y", "m:proj-diag", "m:coarse2", "m:coarse1.5",
       "m:const-half", "m:clamp-y"]
M2O_JITTER = ("m:fold-y", "m:fold-yx", "m:proj-diag", "m:coarse2", "m:const-half")  # one jitter draw per DISTINCT image point
# quick tier: transforms that run in every case / that are rotated over the cases (see `plan`)
FIXED = ("id", "mag3", "shear", "blowup")  # lattice ties; the transforms that go through the mesh entry points
ROTATING = [t for t in TRANSFORMS if t not in FIXED]
# number of sub-size maps a mask is enumerated with -> (ROTATING per case, M2O per case, ROTATING / M2O window step per
# sub-size map, M2O window step per mask)
ROTATION = {5: (4, 2, 2, 2, 1), 2: (3, 3, 3, 5, 3)}
# "in-box" source planes (ids "x:<base transform>"): the source plane of the base transform in which NO coordinate lies
# beyond the bounding box of the border points - every non-border point that is replaced is replaced by a point of the
# in-box menu (`inbox_menu`: outside the border only in the corners / notches that the border leaves inside its own
# bounding box), every other non-border point is clipped into the box.  quick: one base per case, rotated (`plan`).
INBOX_BASES = list(TRANSFORMS)
INBOX_STEP = {5: 2, 2: 5}  # number of sub-size maps of the mask -> step of the base per sub-size map
# integer source planes: 24 x (pixel-unit sub-grid) is integer for every sub-size <= 4; integer maps with det != 0
INT_MAPS = [((1, 0), (0, 1)), ((1, 1), (0, 2)), ((2, -1), (1, 1)), ((0, -1), (1, 0)), ((3, 1), (-1, 2))]

PS_MENU = [(1.0, 2.0), (0.7, 0.7), (0.05, 0.1), (2.0, 0.5), (0.3, 1.7)]
OR_MENU = [(0.5, -1.0), (0.0, 0.0), (-0.25, 3.0), (10.0, 0.125), (-1.3, -0.7)]

N8 = [(-1, -1), (-1, 0), (-1, 1), (0, -1), (0, 1), (1, -1), (1, 0), (1, 1)]


def geometry(seed):
    s = int(seed)
    ps = PS_MENU[s % len(PS_MENU)]
    og = OR_MENU[(s + s // len(PS_MENU)) % len(OR_MENU)]
    return [ps[0], ps[1], og[0], og[1]]


def plan(tier, rank, j, nsub):
    """Which transforms a case runs (the last entry of the case): "*" = all of TRANSFORMS + M2O (thorough), otherwise
    the comma-joined ids of the ROTATING / M2O transforms that run besides FIXED (which always run).  The case is the
    j-th of the `nsub` sub-size maps its mask is enumerated with; windows into ROTATING / M2O are cyclic.

    quick, nsub == 5 (rank = number of the mask in its frame): 4 of the 6 ROTATING transforms, window starting at
    rank + 2*j (the 5 sub-size maps of one mask give every ROTATING transform 3 or 4 times); 2 many-to-one transforms
    starting at rank + 2*j (the 5 sub-size maps of one mask cover the 10 many-to-one transforms exactly once).
    quick, nsub == 2 (rank = number of the mask in its mask class): 3 of the 6 ROTATING transforms, window starting at
    rank + 3*j (the two sub-size maps of one mask cover all 6); 3 many-to-one transforms starting at 3*rank + 5*j (6 of
    the 10 per mask, all 10 over any two consecutive masks of a class).
    Both: ONE in-box source plane "x:<base>" (see INBOX_BASES)."""
    if tier == "thorough":
        return "*"
    n_rot, n_m2o, step_rot, step_m2o, rank_m2o = ROTATION[nsub]
    sel = [ROTATING[(rank + step_rot * j + t) % len(ROTATING)] for t in range(n_rot)]
    sel += [M2O[(rank_m2o * rank + step_m2o * j + t) % len(M2O)] for t in range(n_m2o)]
    # one in-box source plane per case: base number rank + 2*j (nsub == 5: the 5 sub-size maps of a mask cover 5 of the 10
    # bases, two consecutive masks all 10) / rank + 5*j (nsub == 2: 2 per mask, 5 consecutive masks of a class all 10)
    sel.append("x:" + INBOX_BASES[(rank + INBOX_STEP[nsub] * j) % len(INBOX_BASES)])
    return ",".join(sel)


def cases(tier, seed):
    geo = geometry(seed)
    tail = geo + [int(seed)]
    for (h, w, bits) in dom.all_mask_cases(9):
        for j, sm in enumerate(SUBMAPS):
            yield ["m", h, w, bits, sm] + tail + [plan(tier, bits, j, 5)]
    for bits in range(1, 2 ** 9):
        for j, sm in enumerate(SUBMAPS):
            yield ["i", 5, 5, 3, 3, bits, sm] + tail + [plan(tier, bits, j, 5)]
    if tier == "thorough":
        for (h, w) in ((2, 5), (5, 2), (2, 6), (6, 2)):
            for bits in range(2 ** (h * w) - 1):
                for sm in SUBMAPS:
                    yield ["m", h, w, bits, sm] + tail + ["*"]
    for (h, w) in ((3, 4), (4, 3)):
        seen = {}  # mask class -> number of masks of the class met so far
        for bits in range(2 ** 12 - 1):
            sms = SUBMAPS if tier == "thorough" else ("u2", "pA")
            rank = 0
            if tier != "thorough":
                # the many-to-one window advances (by 3) from one mask to the next mask OF THE SAME CLASS (frame, number
                # of unmasked / border / optional-border pixels), so every class of >= 2 masks meets the whole menu
                m = dom.mask_from_bits(h, w, bits)
                must, free = ref_border_classes(m)
                key = (int((~m).sum()), len(must), len(free))
                rank = seen.get(key, 0)
                seen[key] = rank + 1
            for j, sm in enumerate(sms):
                yield ["m", h, w, bits, sm] + tail + [plan(tier, rank, j, len(sms))]
    if tier == "thorough":
        # the two 2^16 families rotate the transform menu from mask to mask as the quick tier does (every transform meets
        # every run of 5-10 consecutive masks); the full product on them alone costs more than two hours of 16 cores
        for bits in range(1, 2 ** 16):
            yield ["i", 6, 6, 4, 4, bits, "u1"] + tail + [plan("rotate", bits, bits % 5, 5)]
        for bits in range(2 ** 16 - 1):
            for j, sm in enumerate(("u2", "pA")):
                yield ["m", 4, 4, bits, sm] + tail + [plan("rotate", bits, j, 2)]


def plan_of(case):
    """Set of transform ids the case runs (cases recorded before the plan entry existed run everything; cases recorded
    before the in-box source planes existed carry no "x:" id and run none)."""
    k = 10 if case[0] == "m" else 12
    p = case[k] if len(case) > k else "*"
    inbox = set("x:" + b for b in INBOX_BASES)
    if p == "*":
        return set(TRANSFORMS) | set(M2O) | inbox
    sel = set(p.split(",")) | set(FIXED)
    unknown = sel - set(TRANSFORMS) - set(M2O) - inbox
    if unknown:
        raise ValueError("harness: unknown transform ids %s in case" % sorted(unknown))
    return sel


def plan_is_full(case):
    k = 10 if case[0] == "m" else 12
    return len(case) <= k or case[k] == "*"


def mask_of(case):
    if case[0] == "m":
        _, h, w, bits, sm = case[:5]
        return dom.mask_from_bits(h, w, bits), sm, case[5:9], case[9]
    _, H, W, hh, ww, bits, sm = case[:7]
    m = np.ones((H, W), dtype=bool)
    y0, x0 = (H - hh) // 2, (W - ww) // 2
    for k in range(hh * ww):
        if (bits >> k) & 1:  # bit set <=> UNMASKED
            m[y0 + k // ww, x0 + k % ww] = False
    return m, sm, case[7:11], case[11]


# ----------------------------------------------------------------------------- reference model


def sub_sizes_of(sm, n):
    if sm[0] == "u":
        return [int(sm[1:])] * n
    if sm == "pA":
        return [(1, 2, 3)[k % 3] for k in range(n)]
    if sm == "pB":
        return [(3, 1, 4, 2)[k % 4] for k in range(n)]
    raise ValueError(sm)


def ref_unmasked(m):
    H, W = m.shape
    return [(i, j) for i in range(H) for j in range(W) if not m[i, j]]


def ref_border_classes(m):
    """(must_border, free): see module docstring."""
    H, W = m.shape
    must, free = [], []
    for (i, j) in ref_unmasked(m):
        has_masked, all_exist = False, True
        for di, dj in N8:
            a, b = i + di, j + dj
            if 0 <= a < H and 0 <= b < W:
                if m[a, b]:
                    has_masked = True
            else:
                all_exist = False
        up = all(m[a, j] for a in range(0, i))
        down = all(m[a, j] for a in range(i + 1, H))
        left = all(m[i, b] for b in range(0, j))
        right = all(m[i, b] for b in range(j + 1, W))
        walk = up or down or left or right
        if has_masked:
            if walk:
                must.append((i, j))
        elif not all_exist:
            free.append((i, j))  # on the outer ring => walk holds vacuously
    return must, free


def ref_sub_grid(m, subs):
    """pixel-unit sub-grid (N,2), owner slim pixel of each sub-pixel (N,), offsets (n+1,)."""
    H, W = m.shape
    cy, cx = (H - 1) / 2.0, (W - 1) / 2.0
    pts, owner, offs = [], [], [0]
    for k, (i, j) in enumerate(ref_unmasked(m)):
        s = subs[k]
        for a in range(s):
            for b in range(s):
                pts.append(((cy - i) + 0.5 - (a + 0.5) / s, (j - cx) - 0.5 + (b + 0.5) / s))
                owner.append(k)
        offs.append(offs[-1] + s * s)
    return np.array(pts, dtype=float).reshape(-1, 2), np.array(owner, dtype=int), offs


def radii(P, c):
    return np.hypot(P[:, 0] - c[0], P[:, 1] - c[1])


class Stats:
    __slots__ = ("moved", "kept_outside", "interior", "ties", "points", "dup_border")

    def __init__(self):
        self.moved = self.kept_outside = self.interior = self.ties = self.points = 0
        self.dup_border = 0  # source planes in which >= 2 border points were bitwise the same coordinate


def check_relocation(v, site, B, P, Q, st, ctx, suffix=""):
    """All clauses of the relocation law for input P -> output Q against border point set B.

    `suffix` is appended to every finding class (":int-dtype" for integer-dtype inputs: there the dtype of the output is
    not prescribed - the VALUES decide, an output that inherits the integer dtype truncates every moved point; ":in-box"
    for source planes without any coordinate beyond the bounding box of the border).

    Returns None when the output cannot be compared point by point, otherwise (untied, tol): the points with ONE accepted
    nearest border point (their output is determined by the law up to `tol`) and the absolute tolerance used."""
    P = np.asarray(P, dtype=float)
    Q = np.asarray(Q)
    int_ok = suffix.endswith(":int-dtype")
    if not v.ok(
        Q.shape == P.shape and (Q.dtype.kind == "f" or (int_ok and Q.dtype.kind in "iu")),
        site + ":count-order" + suffix,
        lambda: "%s output shape %s dtype %s for input shape %s" % (ctx(), Q.shape, Q.dtype, P.shape),
    ):
        return
    Q = Q.astype(float)
    if P.shape[0] == 0:
        return np.zeros(0, dtype=bool), 0.0
    c = np.array([np.mean(B[:, 0]), np.mean(B[:, 1])])
    rb = radii(B, c)
    rmin, rmax = float(rb.min()), float(rb.max())
    rp = radii(P, c)
    rq = radii(Q, c)
    scale = max(1.0, float(np.max(np.abs(P - c))), float(np.max(np.abs(B - c))), float(np.max(np.abs(c))))
    tol = 1e-12 * scale
    band = 1e-9 * scale

    D = np.hypot(P[:, None, 0] - B[None, :, 0], P[:, None, 1] - B[None, :, 1])
    dmin = D.min(axis=1)
    cand = D <= (dmin[:, None] + band)
    # expected radius for each accepted nearest border point: min(own radius, its radius)
    E = np.minimum(rb[None, :], rp[:, None])
    err = np.where(cand, np.abs(E - rq[:, None]), np.inf).min(axis=1)

    same = np.all(Q == P, axis=1)
    on_border_min = np.zeros(P.shape[0], dtype=bool)
    for b in np.flatnonzero(rb == rmin):
        on_border_min |= np.all(P == B[b], axis=1)
    must_same = (rp <= rmin - tol) | on_border_min

    dx, dy = P[:, 1] - c[1], P[:, 0] - c[0]
    ex, ey = Q[:, 1] - c[1], Q[:, 0] - c[0]
    cross = np.abs(ey * dx - ex * dy)
    dot = ey * dy + ex * dx
    bad_ray = (cross > tol * np.maximum(rp, tol)) | (dot < -tol * np.maximum(rp, tol))
    bad_out = rq > rp + tol
    bad_rad = err > tol
    bad_max = rq > rmax + tol
    bad_int = must_same & ~same

    st.points += P.shape[0]
    st.moved += int(np.sum(~same & (rq < rp - tol)))
    st.kept_outside += int(np.sum(same & (rp > rmin + band) & (dmin > band)))
    st.interior += int(np.sum(rp <= rmin - tol))
    st.ties += int(np.sum(cand.sum(axis=1) > 1))

    def desc(k, what):
        nb = np.flatnonzero(cand[k]).tolist()
        return (
            "%s point #%d %s -> %s: %s; centroid=%s r_in=%.17g r_out=%.17g r_min=%.17g r_max=%.17g nearest border "
            "idx %s radii %s; border=%s"
            % (ctx(), k, P[k].tolist(), Q[k].tolist(), what, c.tolist(), rp[k], rq[k], rmin, rmax, nb,
               rb[nb].tolist(), B.tolist())
        )

    # a permutation / shift of an otherwise correct output is an order defect, not a radius defect
    if (bad_ray | bad_rad).any():
        e_first = E[np.arange(P.shape[0]), np.argmin(D, axis=1)]
        with np.errstate(invalid="ignore", divide="ignore"):
            f = np.where(rp > 0, e_first / np.where(rp > 0, rp, 1.0), 1.0)
        X = c[None, :] + f[:, None] * (P - c[None, :])
        X = np.where((f == 1.0)[:, None], P, X)
        if not np.allclose(Q, X, rtol=0, atol=tol * 10) and np.allclose(
            Q[np.lexsort((Q[:, 1], Q[:, 0]))], X[np.lexsort((X[:, 1], X[:, 0]))], rtol=0, atol=tol * 10
        ):
            k = int(np.flatnonzero(bad_ray | bad_rad)[0])
            v.fail(site + ":count-order" + suffix, lambda: desc(k, "outputs are a permutation of the expected outputs"))
            return None

    def one(bad, cls, what):
        if bad.any():
            k = int(np.flatnonzero(bad)[0])
            v.ok(False, site + ":" + cls + suffix, lambda: desc(k, what))
        else:
            v.ok(True, site + ":" + cls + suffix)

    one(bad_int, "interior-changed", "r_in <= r_min (or the point IS the innermost border point) but the point changed")
    one(bad_ray, "off-ray", "output is not on the ray centroid -> input")
    one(bad_out, "moved-outward", "output is farther from the centroid than the input")
    one(bad_rad, "radius", "output radius is not min(r_in, radius of a nearest border point)")
    one(bad_max, "beyond-max-border-radius", "output is farther from the centroid than the farthest border point")
    return cand.sum(axis=1) == 1, tol


# ----------------------------------------------------------------------------- value menus


def transform(tid, G, geo, rs):
    """Source-plane image S = T(G) of the image-plane sub-grid G (scaled units)."""
    psy, psx = geo[0], geo[1]
    L = 0.5 * (psy + psx)
    ctr = np.array([0.5 * (G[:, 0].max() + G[:, 0].min()), 0.5 * (G[:, 1].max() + G[:, 1].min())])
    d = G - ctr
    jit = rs.uniform(-0.2, 0.2, size=G.shape) * np.array([psy, psx])
    e = rs.uniform(-0.1, 0.1, size=6)
    if tid == "id":
        return G.copy()
    if tid == "idj":
        return G + jit
    if tid == "mag0.5":
        return ctr + L * e[:2] + 0.5 * (d + jit)
    if tid == "mag3":
        return ctr + L * e[:2] + 3.0 * (d + jit)
    if tid == "shear":
        A = np.array([[1.0 + e[0], 0.6 + e[1]], [0.25 + e[2], 1.4 + e[3]]])
        return (d + jit) @ A.T + L * np.array([0.7 + e[4], -0.4 + e[5]])
    if tid == "rotshift":
        t = 0.5 + e[0]
        A = np.array([[math.cos(t), -math.sin(t)], [math.sin(t), math.cos(t)]])
        return (d + jit) @ A.T + L * np.array([10.3 + e[1], -7.1 + e[2]])
    if tid == "blowup":
        dj = d + jit
        r2 = (dj[:, 0] / psy) ** 2 + (dj[:, 1] / psx) ** 2
        return ctr + dj * (1.0 + (8.0 + 10 * e[0]) * np.exp(-r2 / 0.9))[:, None]
    if tid == "fold":
        dj = d + jit
        return np.stack([np.abs(dj[:, 0] + (0.3 + e[0]) * psy), dj[:, 1] + (0.2 + e[1]) * dj[:, 0]], axis=1) + ctr
    if tid == "line":
        dj = d + jit
        return np.stack([dj[:, 0] + 0.5 * dj[:, 1], np.full(G.shape[0], e[0] * L)], axis=1) + ctr
    if tid == "point":
        return np.zeros_like(G) + (ctr + L * e[:2])
    raise ValueError(tid)


def lattice(Gp):
    """Integer lattice coordinates (24 x pixel units) of the pixel-unit sub-grid: exact for every sub-size <= 4."""
    Gi = np.rint(24.0 * Gp)
    if float(np.max(np.abs(Gi - 24.0 * Gp))) > 1e-9:
        raise RuntimeError("harness: 24 x pixel-unit sub-grid is not integer")
    return Gi.astype(np.int64)


def transform_m2o(tid, Gi, G, geo, rs):
    """Source-plane image S = F(K(Gi)) of the sub-grid under an EXACTLY many-to-one map: K is a many-to-one map of the
    integer lattice Gi of sub-pixel centres (24 units = 1 pixel), F an injective seed-drawn affine map (plus, for
    M2O_JITTER, one jitter draw per distinct K-value) evaluated once per DISTINCT K-value, so that sub-pixels with the
    same K-value receive bit-for-bit the same coordinate.  Returns (S, index of the distinct image point of each sub-pixel)."""
    psy, psx = geo[0], geo[1]
    L = 0.5 * (psy + psx)
    ctr = np.array([0.5 * (G[:, 0].max() + G[:, 0].min()), 0.5 * (G[:, 1].max() + G[:, 1].min())])
    e = rs.uniform(-0.1, 0.1, size=6)
    c0 = (Gi.min(axis=0) + Gi.max(axis=0)) // 2 + 12 * rs.randint(0, 2, size=2)  # fold line / lattice anchor
    q = rs.randint(-36, 37, size=2)  # image of the constant part
    a = Gi[:, 0] - c0[0]
    b = Gi[:, 1] - c0[1]
    zero = np.zeros_like(a)
    if tid == "m:fold-y":
        k1, k2 = np.abs(a), b
    elif tid == "m:fold-x":
        k1, k2 = a, np.abs(b)
    elif tid == "m:fold-yx":
        k1, k2 = np.abs(a), np.abs(b)
    elif tid == "m:fold-diag":  # reflection of the half plane y < x in the line y = x
        k1, k2 = np.maximum(a, b), np.minimum(a, b)
    elif tid == "m:proj-y":  # every row of sub-pixels lands on one point
        k1, k2 = a, zero
    elif tid == "m:proj-diag":  # every anti-diagonal lands on one point of the line y = x
        k1, k2 = a + b, a + b
    elif tid == "m:coarse2":  # rounding to a lattice of 2 pixels
        k1, k2 = 48 * (a // 48), 48 * (b // 48)
    elif tid == "m:coarse1.5":  # rounding to a lattice of 1.5 pixels
        k1, k2 = 36 * (a // 36), 36 * (b // 36)
    elif tid == "m:const-half":  # the upper half plane lands on one point, the rest is kept
        up = a > 0
        k1, k2 = np.where(up, q[0], a), np.where(up, q[1], b)
    elif tid == "m:clamp-y":  # everything above a horizontal line is projected onto it
        k1, k2 = np.minimum(a, 0), b
    else:
        raise ValueError(tid)
    # distinct K-values through a scalar key (|k| < 2**20 by far)
    key, first, inv = np.unique(k1 * (1 << 21) + k2, return_index=True, return_inverse=True)
    inv = np.asarray(inv).reshape(-1)
    Uf = np.stack([k1[first], k2[first]], axis=1).astype(float)
    Su = np.stack(
        [
            ctr[0] + L * e[4] + psy * ((1.0 + e[0]) * Uf[:, 0] + e[1] * Uf[:, 1]) / 24.0,
            ctr[1] + L * e[5] + psx * (e[2] * Uf[:, 0] + (1.0 + e[3]) * Uf[:, 1]) / 24.0,
        ],
        axis=1,
    )
    if tid in M2O_JITTER:
        Su = Su + rs.uniform(-0.2, 0.2, size=Su.shape) * np.array([psy, psx])
    return Su[inv], inv


def point_menus(B, geo, rs):
    """(outliers, extra) relative to border point set B."""
    c = np.array([np.mean(B[:, 0]), np.mean(B[:, 1])])
    rb = radii(B, c)
    rmin, rmax = float(rb.min()), float(rb.max())
    unit = rmax if rmax > 0 else 0.5 * (geo[0] + geo[1])
    phi = float(rs.uniform(0.0, 2 * math.pi))
    dirs = [np.array([math.sin(phi + 2 * math.pi * k / 8), math.cos(phi + 2 * math.pi * k / 8)]) for k in range(8)]
    fac = (50.0, 1.0001, 2.0)
    out = []
    for rot in range(3):
        for k in range(8):
            out.append(c + fac[(k + rot) % 3] * unit * dirs[k])
    extra = [c.copy()]
    dirs2 = [np.array([math.sin(phi + 0.3 + 2 * math.pi * k / 8), math.cos(phi + 0.3 + 2 * math.pi * k / 8)]) for k in range(8)]
    for k in range(8):
        extra.append(c + 0.5 * (rmin + rmax) * dirs2[k] if rmax > rmin else c + 0.7 * unit * dirs2[k])
    for k in range(0, 8, 2):
        extra.append(c + rmin * (1 - 1e-6) * dirs[k])
        extra.append(c + (rmin * (1 + 1e-6) if rmin > 0 else 1e-6 * unit) * dirs[k + 1])
        extra.append(c + 0.5 * rmin * dirs2[k])
    return np.array(out), np.array(extra)


def inbox_menu(B, rs):
    """Points of the closed bounding box [lo, hi] of the border point list B that lie where a border leaves room inside
    its own box - no point of the menu is beyond the extreme y / x values of the border points:

    * the 4 box corners pulled towards the box centre by {1, 5, 10} % of the half-extent (every corner with every
      fraction: 12 points) and the 4 corners themselves (the diagonal corners around a roundish border);
    * one point on every side of the box, 1 % inside, at a seed-drawn position along the side (beside a border that
      touches the side in one place only);
    * up to 8 border points pushed OUTWARD along their ray from the centroid by {1.05, 1.3, 2} and clipped into the box
      shrunk by 1 % (just outside the border wherever it does not touch the box: corners and notches);
    * up to 8 midpoints of pairs of border points (inside the convex hull, hence inside the box: in the notch of a
      non-convex border, otherwise interior points).

    Whether a point has to move is for the law to say (for a border that fills its box, e.g. two points, nothing moves)."""
    lo, hi = B.min(axis=0), B.max(axis=0)
    bc, half, span = 0.5 * (lo + hi), 0.5 * (hi - lo), hi - lo
    c = np.array([np.mean(B[:, 0]), np.mean(B[:, 1])])
    nb = B.shape[0]
    signs = [(1.0, 1.0), (1.0, -1.0), (-1.0, -1.0), (-1.0, 1.0)]
    frac = (0.01, 0.05, 0.10)
    pts = []
    for rot in range(3):
        for k, sg in enumerate(signs):
            pts.append(bc + (1.0 - frac[(k + rot) % 3]) * half * np.array(sg))
        if rot == 0:
            idx = [int(round(q * nb / float(min(8, nb)))) % nb for q in range(min(8, nb))]
            for q, k in enumerate(idx):
                pts.append(np.clip(c + (1.05, 1.3, 2.0)[q % 3] * (B[k] - c), lo + 0.01 * span, hi - 0.01 * span))
        if rot == 1:
            for sy, sx in signs:
                pts.append(np.array([hi[0] if sy > 0 else lo[0], hi[1] if sx > 0 else lo[1]]))
            t = rs.uniform(0.2, 0.8, size=4)
            pts.append(np.array([hi[0] - 0.01 * span[0], lo[1] + t[0] * span[1]]))
            pts.append(np.array([lo[0] + 0.01 * span[0], lo[1] + t[1] * span[1]]))
            pts.append(np.array([lo[0] + t[2] * span[0], hi[1] - 0.01 * span[1]]))
            pts.append(np.array([lo[0] + t[3] * span[0], lo[1] + 0.01 * span[1]]))
    for q, k in enumerate(idx):
        pts.append(0.5 * (B[k] + B[(k + max(1, nb // 3) + q % 2) % nb]))
    return np.clip(np.array(pts), lo, hi), lo, hi


# ----------------------------------------------------------------------------- the check


def run_case(case):
    import autoarray as aa

    v = V(ID)
    m, sm, geo, seed = mask_of(case)
    geo = [float(g) for g in geo]
    H, W = m.shape
    px = ref_unmasked(m)
    n = len(px)
    subs = sub_sizes_of(sm, n)
    mask = aa.Mask2D(mask=m.copy(), pixel_scales=(geo[0], geo[1]), origin=(geo[2], geo[3]))
    if sm[0] == "u":
        sub_arg = int(sm[1:])
    else:
        sub_arg = aa.Array2D(values=np.array(subs, dtype=int), mask=mask)
    br = aa.BorderRelocator(mask=mask, sub_size=sub_arg)
    desc = lambda: "mask=%s sub=%s geo=%s" % (m.astype(int).tolist(), subs if sm[0] == "p" else sm, geo)

    Gp, owner, offs = ref_sub_grid(m, subs)
    N = Gp.shape[0]
    G = Gp * np.array([geo[0], geo[1]]) + np.array([geo[2], geo[3]])
    must, free = ref_border_classes(m)

    # ------------------------------------------------------------------ sub_border_slim
    sbs_raw = br.sub_border_slim
    sbs = np.asarray(sbs_raw)
    usable = sbs.ndim == 1 and sbs.size > 0 and np.issubdtype(sbs.dtype, np.integer) and bool(
        np.all((sbs >= 0) & (sbs < N))
    )
    v.ok(usable, "sub_border_slim:wrong-pixel", lambda: "%s sub_border_slim=%s is not a non-empty 1D integer array of indices < %d" % (desc(), sbs.tolist(), N))
    if not usable:
        v.outcome = "unusable-sub-border"
        return v.result()
    sbs = sbs.astype(int)
    bpix = [px[owner[s]] for s in sbs]
    bset = set(bpix)
    ok_pix = (
        all(owner[sbs[k]] < owner[sbs[k + 1]] for k in range(len(sbs) - 1))
        and set(must) <= bset
        and bset <= set(must) | set(free)
    )
    v.ok(
        ok_pix,
        "sub_border_slim:wrong-pixel",
        lambda: "%s sub_border_slim=%s lies in pixels %s; border pixels (row-major) are %s (optional frame pixels %s)"
        % (desc(), sbs.tolist(), bpix, must, free),
    )
    ii = [p[0] for p in px]
    jj = [p[1] for p in px]
    cen = np.array([(H - 1) / 2.0 - 0.5 * (min(ii) + max(ii)), 0.5 * (min(jj) + max(jj)) - (W - 1) / 2.0])
    bad_far = []
    for k, s in enumerate(sbs):
        o = owner[s]
        d2 = np.sum((Gp[offs[o]:offs[o + 1]] - cen) ** 2, axis=1)
        if math.sqrt(d2[s - offs[o]]) < math.sqrt(d2.max()) - 1e-9:
            bad_far.append((int(s), px[o], float(math.sqrt(d2[s - offs[o]])), float(math.sqrt(d2.max())), int(offs[o] + np.argmax(d2))))
    v.ok(
        not bad_far,
        "sub_border_slim:not-farthest",
        lambda: "%s sub_border_slim=%s bbox-centre(pixel units)=%s: (index, pixel, its distance, max distance in the "
        "pixel, a farthest index) %s" % (desc(), sbs.tolist(), cen.tolist(), bad_far[:4]),
    )

    # ------------------------------------------------------------------ border_grid / sub_border_grid
    gscale = max(abs(geo[2]), abs(geo[3]), geo[0] * H, geo[1] * W, 1e-3)
    sbg = np.asarray(br.sub_border_grid)
    v.ok(
        sbg.shape == (len(sbs), 2) and float(np.max(np.abs(sbg - G[sbs]))) <= 1e-12 * gscale,
        "sub_border_grid",
        lambda: "%s sub_border_grid=%s want sub-pixel centres %s of indices %s" % (desc(), sbg.tolist(), G[sbs].tolist(), sbs.tolist()),
    )
    cy, cx = (H - 1) / 2.0, (W - 1) / 2.0
    want_bg = np.array([[(cy - i) * geo[0] + geo[2], (j - cx) * geo[1] + geo[3]] for (i, j) in bpix]).reshape(-1, 2)
    bg = np.asarray(br.border_grid)
    v.ok(
        bg.shape == want_bg.shape and float(np.max(np.abs(bg - want_bg))) <= 1e-12 * gscale,
        "border_grid",
        lambda: "%s border_grid=%s want pixel centres %s of border pixels %s" % (desc(), bg.tolist(), want_bg.tolist(), bpix),
    )

    # ------------------------------------------------------------------ relocation
    st = Stats()
    is_border = np.zeros(N, dtype=bool)
    is_border[sbs] = True
    nonborder = np.flatnonzero(~is_border)
    rect = aa.mesh.Rectangular(shape=(3, 3))
    tri_meshes = [("Delaunay", aa.mesh.Delaunay()), ("Voronoi", aa.mesh.Voronoi())]

    # every data grid returned by a mesh entry point in THIS case: (input grid, returned grid, description)
    earlier = []

    def stale_source(keep_, Qa):
        """Description of an earlier call of this case, made with a DIFFERENT data grid, whose result `Qa` is bitwise."""
        for kin, kout, what in earlier:
            if kout.shape == Qa.shape and not (kin.shape == keep_.shape and np.array_equal(kin, keep_)) and np.array_equal(kout, Qa):
                return what
        return None

    def check_mesh_data_grid(site, what, B_, keep_, got, ctx_, suffix="", direct=None):
        """Data grid returned by a mesh entry point (mapper_grids_from / mesh.relocated_grid_from, default preloads):
        the relocation law against the call's OWN grid; a result that breaks it and is bitwise the result of an earlier
        call with a different grid is reported once, as the history defect it is.

        `direct`: the result of BorderRelocator.relocated_grid_from for the same grid, already checked against the law (see
        `same_as_direct`)."""
        Qa = np.asarray(got)
        Qf = Qa.astype(float) if Qa.dtype.kind in "fiu" else Qa
        if direct is not None and same_as_direct(site, B_, keep_, Qa, direct, ctx_, suffix):
            earlier.append((keep_, Qf.copy(), what))
            return Qa
        src = stale_source(keep_, Qf)
        if src is not None:
            tmp = V(ID)
            check_relocation(tmp, site, B_, keep_, Qa, Stats(), ctx_, suffix)
            if tmp.violations:
                v.ok(False, site + ":second-call-different-grid",
                     lambda: "%s: %s returned, bit for bit, the relocated grid of the earlier call %s instead of relocating the grid it "
                     "was given (%s)" % (ctx_(), what, src, tmp.violations[0]["msg"][:250]))
                return None  # consequences (mesh vertices relocated against that grid's border) are not reported again
        if earlier:
            v.ok(True, site + ":second-call-different-grid")
        info = check_relocation(v, site, B_, keep_, Qa, st, ctx_, suffix)
        if direct is not None:
            agrees_with_direct(site, keep_, Qa, direct, info, ctx_, suffix)
        if Qf.shape == keep_.shape:
            earlier.append((keep_, Qf.copy(), what))
        return Qa

    def same_as_direct(site, B_, P_, Qa, direct, ctx_, suffix):
        """The law is a predicate of (border, input, output): an output that is bit for bit (values, shape, dtype) the output
        of the direct BorderRelocator call for the same border and input has the verdict of that call - which has been checked
        clause by clause and carries the finding if there is one - and the two entry points agree."""
        if direct.dtype == Qa.dtype and direct.shape == Qa.shape and np.array_equal(direct, Qa):
            v.ok(True, site + ":differs-from-direct-call" + suffix)
            return True
        return False

    def agrees_with_direct(site, P_, Qa, direct, info, ctx_, suffix):
        """Every entry point applies the same rule: where the law determines the output (one accepted nearest border point)
        the entry point and the direct BorderRelocator call, BOTH checked against the law, are within the tolerance of the
        law of the same point, hence of each other."""
        if info is None or direct.shape != Qa.shape:
            return
        untied, tol = info
        diff = np.max(np.abs(Qa.astype(float) - direct.astype(float)), axis=1) if Qa.shape[0] else np.zeros(0)
        bad = untied & (diff > 10 * tol)
        v.ok(not bad.any(), site + ":differs-from-direct-call" + suffix,
             lambda: "%s point #%d %s: this entry point returned %s, the direct BorderRelocator call for the same grid %s"
             % (ctx_(), int(np.flatnonzero(bad)[0]), np.asarray(P_)[int(np.flatnonzero(bad)[0])].tolist(),
                Qa[int(np.flatnonzero(bad)[0])].tolist(), direct[int(np.flatnonzero(bad)[0])].tolist()))

    def check_vs_direct(site, B_, P_, got, direct, ctx_, suffix):
        """Mesh vertices (no history clause): law + agreement with the direct call."""
        Qa = np.asarray(got)
        if same_as_direct(site, B_, P_, Qa, direct, ctx_, suffix):
            return
        agrees_with_direct(site, P_, Qa, direct, check_relocation(v, site, B_, P_, Qa, st, ctx_, suffix), ctx_, suffix)

    def check_untouched(site, keep_, got, ctx_, extra_ok=True):
        """border_relocator=None: the data grid comes back bit for bit."""
        Qa = np.asarray(got)
        same = dom.exact(Qa, keep_)
        if not same and Qa.dtype.kind in "fiu":
            for kin, kout, what in earlier:
                if kout.shape == Qa.shape and np.array_equal(kout, Qa.astype(float)):
                    v.ok(False, site + ":data-grid:second-call-different-grid",
                         lambda: "%s: call with border_relocator=None returned, bit for bit, the relocated grid of the earlier call %s" % (ctx_(), what))
                    return
        v.ok(same and extra_ok, site + ":no-relocator", lambda: "%s grids changed although border_relocator=None" % ctx_())

    saved = {}
    prev = None
    sel = plan_of(case)
    Gi = lattice(Gp)
    rs_m = dom.rng(seed, "c18-m2o", H, W, sm)
    for tid in [t for t in TRANSFORMS + M2O if t in sel]:
        if tid in M2O:
            rs = rs_m
            S, which = transform_m2o(tid, Gi, G, geo, rs)
            if np.unique(which[sbs]).size < len(sbs):
                st.dup_border += 1
        else:
            rs = dom.rng(seed, "c18", tid, H, W, sm)
            S = transform(tid, G, geo, rs)
        outl, extra = point_menus(S[sbs], geo, rs)
        # data grid: every second non-border point is replaced by an outlier / special point
        menu = np.concatenate([outl, extra[1:9]], axis=0)
        slots = nonborder[1::2] if len(nonborder) > 1 else nonborder
        for q, k in enumerate(slots[: len(menu)]):
            S[k] = menu[q]
        B = S[sbs].copy()
        ctx = lambda: "%s transform=%s" % (desc(), tid)

        keep = S.copy()
        out = br.relocated_grid_from(grid=aa.Grid2DIrregular(values=S.copy()))
        check_relocation(v, "relocated_grid_from", B, keep, np.asarray(out), st, ctx)

        # mesh vertices: full menu, bitwise copies of the border points, and two data-grid points
        Mv = np.concatenate([outl, B, extra, keep[: min(2, N)]], axis=0)
        outm = br.relocated_mesh_grid_from(grid=aa.Grid2DIrregular(values=keep.copy()), mesh_grid=aa.Grid2DIrregular(values=Mv.copy()))
        check_relocation(v, "relocated_mesh_grid_from", B, Mv, np.asarray(outm), st, ctx)
        # the same relocator is reused across source planes: mesh vertices must be relocated against the border of the data
        # grid PASSED IN, also when the last data grid this relocator relocated was a different one
        if prev is not None:
            Bp, keepp, Mvp, tidp = prev
            Mvp = Mvp[::3]  # which border is used shows on any handful of outliers
            outp = br.relocated_mesh_grid_from(grid=aa.Grid2DIrregular(values=keepp.copy()), mesh_grid=aa.Grid2DIrregular(values=Mvp.copy()))
            check_relocation(v, "relocated_mesh_grid_from", Bp, Mvp, np.asarray(outp), st,
                             lambda: "%s transform=%s (relocator last used on transform=%s)" % (desc(), tidp, tid))
        prev = (B, keep, Mv, tid)
        if tid == THIRD_TRANSFORM:
            saved[tid] = (B, keep, Mv)

        if tid in MAPPER_TRANSFORMS:
            if sm == "u1":
                dgrid = lambda: aa.Grid2D(values=keep.copy(), mask=mask)
            else:
                dgrid = lambda: aa.Grid2DIrregular(values=keep.copy())
            # the mesh's own entry point (default preloads): call k must relocate the grid of call k
            got = rect.relocated_grid_from(border_relocator=br, source_plane_data_grid=dgrid())
            check_mesh_data_grid("mesh.relocated_grid_from", "mesh.relocated_grid_from(transform=%s)" % tid, B, keep, got, ctx)
            # Rectangular
            mg = rect.mapper_grids_from(mask=mask, source_plane_data_grid=dgrid(), border_relocator=br)
            check_mesh_data_grid("mapper_grids_from:Rectangular:data-grid", "Rectangular.mapper_grids_from(transform=%s)" % tid,
                                 B, keep, mg.source_plane_data_grid, ctx)
            rq = np.asarray(mg.source_plane_data_grid)
            mesh = mg.source_plane_mesh_grid
            if rq.shape == keep.shape:
                ext = _rect_extent(mesh)
                want = (rq[:, 0].min(), rq[:, 0].max(), rq[:, 1].min(), rq[:, 1].max())
                sc = max(1.0, float(np.max(np.abs(rq))))
                v.ok(
                    all(abs(a - b) <= 1e-7 + 1e-9 * sc for a, b in zip(ext, want)),
                    "mapper_grids_from:Rectangular:mesh-extent",
                    lambda: "%s rectangular mesh extent (ymin,ymax,xmin,xmax)=%s but the relocated data grid spans %s"
                    % (ctx(), ext, want),
                )
            mg0 = rect.mapper_grids_from(mask=mask, source_plane_data_grid=dgrid(), border_relocator=None)
            check_untouched("mapper_grids_from:Rectangular", keep, mg0.source_plane_data_grid, ctx)
            # Delaunay / Voronoi (shared Triangulation.mapper_grids_from): data grid and mesh vertices
            for mname, tmesh in tri_meshes:
                site = "mapper_grids_from:%s" % mname
                mg = tmesh.mapper_grids_from(
                    mask=mask,
                    source_plane_data_grid=dgrid(),
                    border_relocator=br,
                    source_plane_mesh_grid=aa.Grid2DIrregular(values=Mv.copy()),
                )
                if check_mesh_data_grid(site + ":data-grid", "%s.mapper_grids_from(transform=%s)" % (mname, tid), B, keep, mg.source_plane_data_grid, ctx) is not None:
                    check_relocation(v, site + ":mesh-grid", B, Mv, np.asarray(mg.source_plane_mesh_grid), st, ctx)
                mg0 = tmesh.mapper_grids_from(
                    mask=mask,
                    source_plane_data_grid=dgrid(),
                    border_relocator=None,
                    source_plane_mesh_grid=aa.Grid2DIrregular(values=Mv.copy()),
                )
                check_untouched(site, keep, mg0.source_plane_data_grid, ctx, dom.exact(np.asarray(mg0.source_plane_mesh_grid), Mv))

    # ------------------------------------------------------------------ third call through the mesh entry points
    # (same process, same mesh objects, default preloads, a third data grid)
    if THIRD_TRANSFORM in saved:
        B, keep, Mv = saved[THIRD_TRANSFORM]
        tid = THIRD_TRANSFORM
        ctx = lambda: "%s transform=%s (third call through the mesh entry points)" % (desc(), tid)
        if sm == "u1":
            dgrid = lambda: aa.Grid2D(values=keep.copy(), mask=mask)
        else:
            dgrid = lambda: aa.Grid2DIrregular(values=keep.copy())
        got = rect.relocated_grid_from(border_relocator=br, source_plane_data_grid=dgrid())
        check_mesh_data_grid("mesh.relocated_grid_from", "mesh.relocated_grid_from(transform=%s)" % tid, B, keep, got, ctx)
        mg = rect.mapper_grids_from(mask=mask, source_plane_data_grid=dgrid(), border_relocator=br)
        check_mesh_data_grid("mapper_grids_from:Rectangular:data-grid", "Rectangular.mapper_grids_from(transform=%s)" % tid,
                             B, keep, mg.source_plane_data_grid, ctx)
        Mv3 = Mv[::5]
        # Delaunay and Voronoi share Triangulation.mapper_grids_from: one of them, here (odd number of unmasked pixels) or
        # on the integer grid (even number)
        for mname, tmesh in (tri_meshes[(n // 2) % 2:][:1] if n % 2 == 1 else ()):
            site = "mapper_grids_from:%s" % mname
            mg = tmesh.mapper_grids_from(mask=mask, source_plane_data_grid=dgrid(), border_relocator=br,
                                         source_plane_mesh_grid=aa.Grid2DIrregular(values=Mv3.copy()))
            if check_mesh_data_grid(site + ":data-grid", "%s.mapper_grids_from(transform=%s)" % (mname, tid), B, keep, mg.source_plane_data_grid, ctx) is not None:
                check_relocation(v, site + ":mesh-grid", B, Mv3, np.asarray(mg.source_plane_mesh_grid), st, ctx)

    # ------------------------------------------------------------------ integer-dtype coordinates
    run_int_dtype(aa, v, br, mask, m, sm, seed, Gp, sbs, nonborder, rect, tri_meshes, st, desc, check_mesh_data_grid)

    # ------------------------------------------------------------------ in-box source planes
    # no coordinate beyond the bounding box of the border points: what is outside the border is outside it only in the
    # corners / notches the border leaves inside its own box.  Every entry point obeys the law and agrees with the direct call.
    st_in, st_in_mesh = Stats(), Stats()
    for xid in sorted(t for t in sel if t.startswith("x:")):
        base = xid[2:]
        rs = rs_m  # the case's own stream, continued (deterministic per case: the plan is part of the case)
        S = transform(base, G, geo, rs)
        menu, lo, hi = inbox_menu(S[sbs], rs)
        S[nonborder] = np.clip(S[nonborder], lo, hi)
        slots = nonborder[1::2] if len(nonborder) >= 2 * len(menu) else nonborder
        for q, k in enumerate(slots[: len(menu)]):
            S[k] = menu[(q + int(seed)) % len(menu)]
        B = S[sbs].copy()
        keep = S.copy()
        Mv = np.concatenate([menu, B, keep[: min(2, N)]], axis=0)
        if not (np.all(keep >= lo) and np.all(keep <= hi) and np.all(Mv >= lo) and np.all(Mv <= hi) and dom.exact(B.min(axis=0), lo) and dom.exact(B.max(axis=0), hi)):
            raise RuntimeError("harness: in-box source plane has a coordinate beyond the bounding box of the border")
        ctx = lambda: "%s in-box source plane (base transform=%s) data grid=%s" % (desc(), base, keep.tolist())
        sfx = ":in-box"
        if sm == "u1":
            dgrid = lambda: aa.Grid2D(values=keep.copy(), mask=mask)
        else:
            dgrid = lambda: aa.Grid2DIrregular(values=keep.copy())
        mgrid = lambda: aa.Grid2DIrregular(values=Mv.copy())
        d_data = np.asarray(br.relocated_grid_from(grid=aa.Grid2DIrregular(values=keep.copy())))
        check_relocation(v, "relocated_grid_from", B, keep, d_data, st_in, ctx, sfx)
        d_mesh = np.asarray(br.relocated_mesh_grid_from(grid=aa.Grid2DIrregular(values=keep.copy()), mesh_grid=mgrid()))
        check_relocation(v, "relocated_mesh_grid_from", B, Mv, d_mesh, st_in_mesh, ctx, sfx)
        # the two AbstractMesh entry points are called on the rectangular mesh (its mapper_grids_from does not relocate mesh
        # vertices) and reached on the Delaunay mesh through its mapper_grids_from (which relocates the data grid and the mesh
        # vertices through them); thorough tier, bases of MAPPER_TRANSFORMS: every entry point of Rectangular, Delaunay, Voronoi
        full = plan_is_full(case) and base in MAPPER_TRANSFORMS
        for mname, mesh_obj in [("Rectangular", rect)] + list(tri_meshes if full else tri_meshes[:1]):
            if full or mname == "Rectangular":
                got = mesh_obj.relocated_grid_from(border_relocator=br, source_plane_data_grid=dgrid())
                check_mesh_data_grid("mesh.relocated_grid_from", "%s.relocated_grid_from(in-box, base transform=%s)" % (mname, base),
                                     B, keep, got, ctx, sfx, direct=d_data)
                got = mesh_obj.relocated_mesh_grid_from(border_relocator=br, source_plane_data_grid=dgrid(), source_plane_mesh_grid=mgrid())
                check_vs_direct("mesh.relocated_mesh_grid_from", B, Mv, got, d_mesh, ctx, sfx)
            site = "mapper_grids_from:%s" % mname
            if mname == "Rectangular":
                mg = rect.mapper_grids_from(mask=mask, source_plane_data_grid=dgrid(), border_relocator=br)
            else:
                mg = mesh_obj.mapper_grids_from(mask=mask, source_plane_data_grid=dgrid(), border_relocator=br,
                                                source_plane_mesh_grid=mgrid())
            ok = check_mesh_data_grid(site + ":data-grid", "%s.mapper_grids_from(in-box, base transform=%s)" % (mname, base),
                                      B, keep, mg.source_plane_data_grid, ctx, sfx, direct=d_data)
            if ok is not None and mname != "Rectangular":
                check_vs_direct(site + ":mesh-grid", B, Mv, mg.source_plane_mesh_grid, d_mesh, ctx, sfx)
    for f in Stats.__slots__:
        setattr(st, f, getattr(st, f) + getattr(st_in, f) + getattr(st_in_mesh, f))

    # cached state must still denote the same border after use
    v.ok(
        dom.exact(np.asarray(br.sub_border_slim), sbs) and dom.exact(np.asarray(br.sub_border_grid), sbg) and dom.exact(np.asarray(br.border_grid), bg),
        "sub_border_slim:changed-after-use",
        lambda: "%s cached sub_border_slim / sub_border_grid / border_grid differ after the relocation calls" % desc(),
    )

    v.nontrivial = len(sbs) >= 3 and st.moved > 0 and st.kept_outside > 0
    bucket = lambda x: "0" if x == 0 else ("1-9" if x < 10 else ("10-99" if x < 100 else "100+"))
    v.outcome = "nb=%d|moved=%s|kept-outside=%s|ties=%s|dup-border-planes=%d|in-box-moved=%s" % (
        min(len(sbs), 8), bucket(st.moved), bucket(st.kept_outside), bucket(st.ties), min(st.dup_border, 3),
        "0" if st_in.moved == 0 else "1+")
    return v.result()


def run_int_dtype(aa, v, br, mask, m, sm, seed, Gp, sbs, nonborder, rect, tri_meshes, st, desc, check_mesh_data_grid):
    """Source-plane coordinates given with INTEGER dtype (`aa.Grid2DIrregular(values=[(6, 4), (-5, 9)])` keeps int64):
    the law is the same, outliers land ON their ray at the nearest-border radius (not at its truncation)."""
    H, W = m.shape
    rs = dom.rng(seed, "c18-int", H, W, sm)
    Gi = np.rint(24.0 * Gp)
    if float(np.max(np.abs(Gi - 24.0 * Gp))) > 1e-9:
        raise RuntimeError("harness: 24 x pixel-unit sub-grid is not integer")
    A = np.array(INT_MAPS[int(rs.randint(0, len(INT_MAPS)))], dtype=np.int64)
    Si = Gi.astype(np.int64) @ A.T + rs.randint(-30, 31, size=2)
    Bf = Si[sbs].astype(float)
    c = np.array([np.mean(Bf[:, 0]), np.mean(Bf[:, 1])])
    rb = radii(Bf, c)
    rmin, rmax = float(rb.min()), float(rb.max())
    unit = rmax if rmax > 0 else 24.0
    phi = float(rs.uniform(0.0, 2 * math.pi))
    fac = (1.3, 50.0, 2.0)
    out = []
    for k in range(9):
        a = phi + 2 * math.pi * k / 9
        out.append(np.rint(c + fac[k % 3] * unit * np.array([math.sin(a), math.cos(a)])))
    for dy, dx in ((1, 0), (0, -1), (-1, 2)):  # axis / lattice directions
        out.append(np.rint(c) + np.array([dy, dx]) * math.ceil(1.5 * unit + 1))
    inner = [np.rint(c)]
    for k in range(3):
        a = phi + 0.4 + 2 * math.pi * k / 3
        inner.append(np.rint(c + 0.5 * rmin * np.array([math.sin(a), math.cos(a)])))
    out = np.array(out).astype(np.int64)
    inner = np.array(inner).astype(np.int64)
    slots = nonborder[1::2] if len(nonborder) > 1 else nonborder
    for q, k in enumerate(slots[: len(out)]):
        Si[k] = out[q]
    Bf = Si[sbs].astype(float)
    keep = Si.astype(float)
    Mi = np.concatenate([out, Si[sbs], inner, Si[: min(2, len(Si))]], axis=0)
    Mf = Mi.astype(float)
    ctx = lambda: "%s integer-dtype source plane %s" % (desc(), Si.tolist())
    suffix = ":int-dtype"

    def igrid():
        # (a library that converts integer input to float on construction is equally fine: the values decide)
        return aa.Grid2DIrregular(values=Si.copy())

    out_d = br.relocated_grid_from(grid=igrid())
    check_relocation(v, "relocated_grid_from", Bf, keep, np.asarray(out_d), st, ctx, suffix)
    out_m = br.relocated_mesh_grid_from(grid=igrid(), mesh_grid=aa.Grid2DIrregular(values=Mi.copy()))
    check_relocation(v, "relocated_mesh_grid_from", Bf, Mf, np.asarray(out_m), st, ctx, suffix)
    if sm == "u1":
        dgrid = lambda: aa.Grid2D(values=Si.copy(), mask=mask)  # a slim integer array keeps its dtype here too
    else:
        dgrid = igrid
    mg = rect.mapper_grids_from(mask=mask, source_plane_data_grid=dgrid(), border_relocator=br)
    check_mesh_data_grid("mapper_grids_from:Rectangular:data-grid", "Rectangular.mapper_grids_from(integer grid)", Bf, keep,
                         mg.source_plane_data_grid, ctx, suffix)
    n = int((~m).sum())
    if n % 2 == 1:
        return
    mname, tmesh = tri_meshes[(n // 2) % 2]
    site = "mapper_grids_from:%s" % mname
    mg = tmesh.mapper_grids_from(mask=mask, source_plane_data_grid=dgrid(), border_relocator=br,
                                 source_plane_mesh_grid=aa.Grid2DIrregular(values=Mi.copy()))
    if check_mesh_data_grid(site + ":data-grid", "%s.mapper_grids_from(integer grid)" % mname, Bf, keep, mg.source_plane_data_grid, ctx, suffix) is not None:
        check_relocation(v, site + ":mesh-grid", Bf, Mf, np.asarray(mg.source_plane_mesh_grid), st, ctx, suffix)


def _rect_extent(mesh):
    """(ymin, ymax, xmin, xmax) of the rectangular mesh from its pixel centres and shape."""
    c = np.asarray(mesh)
    sy, sx = mesh.shape_native
    y_lo, y_hi = float(c[:, 0].min()), float(c[:, 0].max())
    x_lo, x_hi = float(c[:, 1].min()), float(c[:, 1].max())
    hy = (y_hi - y_lo) / (sy - 1) / 2.0 if sy > 1 else 0.0
    hx = (x_hi - x_lo) / (sx - 1) / 2.0 if sx > 1 else 0.0
    return (y_lo - hy, y_hi + hy, x_lo - hx, x_hi + hx)
