"""
Core of the bounded-exhaustive explorer.

Two engines share this runner:

* scope  : a property module exposes ``cases(tier, seed)`` (a finite, completely enumerated
           domain, simplest first) and ``run_case(case)`` which executes the real library on
           that case and compares every observable with a reference model.
* histex : a property module exposes ``explore(ctx)`` and drives mc.histex itself.

``run_case`` returns a dict::

    {"checks": int,              # number of real operations executed and compared (transitions)
     "nontrivial": bool,         # per-property rule, documented in module.RULE
     "outcome": hashable/str,    # coarse class of what was observed (vacuity census)
     "violations": [ {"finding": "Cnn:<class id>", "msg": "..."} , ...]}

All enumeration is deterministic; worker results are merged in case order.
"""
from __future__ import annotations

import hashlib
import importlib
import itertools
import json
import multiprocessing as mp
import os
import subprocess
import sys
import time
import traceback

VERIF = os.path.dirname(os.path.dirname(os.path.abspath(__file__)))
REPO = os.environ.get("VERIF_REPO", "/repo")
NPROC = int(os.environ.get("VERIF_JOBS", "16"))

_LIB_READY = False


def setup_library():
    """Import autoarray from the working tree and push the harness-owned configuration."""
    global _LIB_READY
    if _LIB_READY:
        return
    import warnings

    warnings.filterwarnings("ignore")
    stubs = os.path.join(VERIF, "stubs")
    if stubs not in sys.path:
        sys.path.append(stubs)  # appended: a real pylops, if ever installed, wins
    if REPO not in sys.path:
        sys.path.insert(0, REPO)
    import logging

    logging.disable(logging.CRITICAL)
    from autoconf import conf

    out = os.environ.get("VERIF_OUT", "/tmp/verif_out_%d" % os.getuid())
    os.makedirs(out, exist_ok=True)
    conf.instance.push(new_path=os.path.join(VERIF, "config"), output_path=out)
    import autoarray  # noqa: F401

    src = os.path.dirname(os.path.abspath(autoarray.__file__))
    if not src.startswith(os.path.abspath(REPO)):
        raise RuntimeError("autoarray imported from %s, not from %s" % (src, REPO))
    _LIB_READY = True


# ----------------------------------------------------------------------------- utilities


def jdump(o):
    return json.dumps(o, sort_keys=True, default=_jsonable)


def _jsonable(o):
    import numpy as np

    if isinstance(o, np.ndarray):
        return o.tolist()
    if isinstance(o, (np.integer,)):
        return int(o)
    if isinstance(o, (np.floating,)):
        return float(o)
    if isinstance(o, (np.bool_,)):
        return bool(o)
    if isinstance(o, (set, frozenset, tuple)):
        return list(o)
    if isinstance(o, complex):
        return [o.real, o.imag]
    return repr(o)


def sha(o):
    return hashlib.sha1(jdump(o).encode()).hexdigest()[:16]


class V:
    """Collector used inside run_case: counts checks and records violations."""

    __slots__ = ("pid", "checks", "violations", "nontrivial", "outcome")

    def __init__(self, pid):
        self.pid = pid
        self.checks = 0
        self.violations = []
        self.nontrivial = False
        self.outcome = None

    def ok(self, cond, finding, msg=""):
        """Record one checked transition; ``finding`` is the finding-class suffix."""
        self.checks += 1
        if not cond:
            self.fail(finding, msg, counted=True)
        return bool(cond)

    def fail(self, finding, msg="", counted=False):
        if not counted:
            self.checks += 1
        if len(self.violations) < 20:
            if callable(msg):
                msg = msg()
            self.violations.append({"finding": "%s:%s" % (self.pid, finding), "msg": str(msg)[:600]})

    def result(self):
        return {
            "checks": self.checks,
            "nontrivial": bool(self.nontrivial),
            "outcome": self.outcome,
            "violations": self.violations,
        }


# ----------------------------------------------------------------------------- known findings


def load_known(pid):
    path = os.path.join(VERIF, "known_findings.json")
    known, fixed = {}, {}
    if os.path.exists(path):
        data = json.load(open(path))
        for e in data.get("findings", []):
            if e.get("property") != pid:
                continue
            if e.get("status") == "known":
                known[e["finding"]] = e
            elif e.get("status") == "fixed":
                fixed[e["finding"]] = e
    return known, fixed


# ----------------------------------------------------------------------------- worker pool

_MOD = None


def _worker_init(modname):
    global _MOD
    setup_library()
    _MOD = importlib.import_module(modname)
    if hasattr(_MOD, "worker_init"):
        _MOD.worker_init()


def _safe_run(mod, case):
    try:
        return mod.run_case(case)
    except Exception as e:  # an unexpected exception of the library under test is a violation
        tb = traceback.extract_tb(e.__traceback__)
        where = ""
        for fr in reversed(tb):
            if "/autoarray/" in fr.filename:
                where = "%s:%s" % (os.path.basename(fr.filename), fr.name)
                break
        if not where and tb:
            where = "harness:%s:%s" % (os.path.basename(tb[-1].filename), tb[-1].name)
        return {
            "checks": 1,
            "nontrivial": False,
            "outcome": "exception",
            "violations": [
                {
                    "finding": "%s:unexpected-exception:%s@%s" % (mod.ID, type(e).__name__, where),
                    "msg": "".join(traceback.format_exception_only(type(e), e)).strip()[:400]
                    + " | "
                    + " <- ".join("%s:%d" % (os.path.basename(f.filename), f.lineno) for f in reversed(tb[-4:])),
                }
            ],
        }


_DIRTY_SIZES = tuple(range(1, 40)) + (48, 49, 56, 64, 72, 81, 96, 100, 121, 128)


def dirty_heap():
    """
    The contents of freshly allocated, uninitialised memory (np.empty) are a source of nondeterminism the harness owns: numpy
    hands small freed blocks back to the next allocation of the same size, so leave a recognisable non-zero pattern in its free
    lists before every case. Library results that are fully written are unaffected; a result that exposes unwritten memory then
    shows 7.25 / True instead of whatever the process happened to hold (usually zeros in a fresh child).
    """
    import numpy as np

    for n in _DIRTY_SIZES:
        a = np.full(n, 7.25)
        b = np.full(n, 7.25)
        c = np.ones(n * 8, dtype=bool)
        del a, b, c


def _run_chunk(chunk):
    out = []
    dirty = os.environ.get("VERIF_DIRTY_HEAP", "1") != "0"
    for case in chunk:
        if dirty:
            dirty_heap()
        r = _safe_run(_MOD, case)
        out.append(r)
    # compress: only keep per-case detail where needed
    agg = {"n": len(chunk), "checks": 0, "nontrivial": 0, "outcomes": {}, "viol": []}
    for ci, (case, r) in enumerate(zip(chunk, out)):
        agg["checks"] += r["checks"]
        agg["nontrivial"] += 1 if r["nontrivial"] else 0
        o = r["outcome"]
        o = o if isinstance(o, str) else jdump(o)
        agg["outcomes"][o] = agg["outcomes"].get(o, 0) + 1
        for v in r["violations"]:
            agg["viol"].append((case, v, ci))
    return agg


CHUNK_TIMEOUT = float(os.environ.get("VERIF_CHUNK_TIMEOUT", "1500"))


def isolated(fn, arg):
    """
    Run fn(arg) in a freshly forked child of this (single-threaded) worker and return its pickled result.
    Returns ("ok", result) | ("died", exit status) | ("timeout", seconds).
    """
    import pickle
    import select
    import signal

    if os.environ.get("VERIF_NO_ISOLATION") == "1":
        return ("ok", fn(arg))
    r, w = os.pipe()
    pid = os.fork()
    if pid == 0:
        code = 0
        try:
            os.close(r)
            data = pickle.dumps(fn(arg), protocol=pickle.HIGHEST_PROTOCOL)
            with os.fdopen(w, "wb") as f:
                f.write(data)
        except BaseException:
            traceback.print_exc()
            code = 3
        finally:
            os._exit(code)
    os.close(w)
    buf = []
    t0 = time.time()
    with os.fdopen(r, "rb", buffering=0) as f:
        while True:
            left = CHUNK_TIMEOUT - (time.time() - t0)
            if left <= 0:
                try:
                    os.kill(pid, signal.SIGKILL)
                except OSError:
                    pass
                os.waitpid(pid, 0)
                return ("timeout", CHUNK_TIMEOUT)
            ready, _, _ = select.select([f], [], [], min(left, 5.0))
            if ready:
                b = f.read(1 << 20)
                if not b:
                    break
                buf.append(b)
    _, status = os.waitpid(pid, 0)
    data = b"".join(buf)
    if not data or status != 0:
        return ("died", status)
    return ("ok", pickle.loads(data))


def _run_chunk_isolated(chunk):
    kind, val = isolated(_run_chunk, chunk)
    if kind == "ok":
        return val
    what = "worker-process-died(status=%s)" % val if kind == "died" else "chunk-timeout(%ss)" % val
    return {"n": len(chunk), "checks": len(chunk), "nontrivial": 0, "outcomes": {"worker-lost": len(chunk)},
            "viol": [(chunk[-1], {"finding": "%s:%s" % (_MOD.ID, what.split("(")[0]),
                                  "msg": "%s while running a chunk of %d cases ending with this one (the library crashed the interpreter or hung)" % (what, len(chunk))},
                      len(chunk) - 1)]}


def chunked(it, n):
    it = iter(it)
    while True:
        c = list(itertools.islice(it, n))
        if not c:
            return
        yield c


class Pool:
    """Fork-based worker pool bound to one property module."""

    def __init__(self, modname, nproc=NPROC):
        self.modname = modname
        self.nproc = nproc
        if nproc <= 1:
            _worker_init(modname)
            self.pool = None
        else:
            ctx = mp.get_context("fork")
            # Workers are long-lived (forked once, before the pool's helper threads exist). Isolation between chunks is obtained
            # by `isolated` below: the single-threaded worker forks a child per task, so process-global state of the library
            # never leaks from one chunk into the next and "the cases of the chunk up to the failing one" is an exact, replayable
            # history. (Pool(maxtasksperchild=1) re-forks from a multi-threaded parent and was observed to deadlock.)
            self.pool = ctx.Pool(nproc, initializer=_worker_init, initargs=(modname,))

    def imap(self, fn, items, chunksize=1):
        if self.pool is None:
            return map(fn, items)
        return self.pool.imap(fn, items, chunksize)

    def close(self):
        if self.pool is not None:
            self.pool.terminate()
            self.pool.join()


# ----------------------------------------------------------------------------- report


class Report:
    def __init__(self, pid, tier, seed):
        self.pid, self.tier, self.seed = pid, tier, seed
        self.cases = 0
        self.checks = 0
        self.nontrivial = 0
        self.outcomes = {}
        self.samples = []
        self.viol = {}  # finding -> (case, msg, count)
        self.prefix = {}  # finding -> cases run before it in the same (fresh) worker process
        self.exhaustive = True
        self.caps = []
        self.extra = {}
        self.states = None
        self.t0 = time.time()

    def add_chunk(self, chunk, agg):
        if self.cases == 0 and chunk:
            self.samples.extend(chunk[:3])
        self.cases += agg["n"]
        self.checks += agg["checks"]
        self.nontrivial += agg["nontrivial"]
        for k, n in agg["outcomes"].items():
            self.outcomes[k] = self.outcomes.get(k, 0) + n
        for case, v, ci in agg["viol"]:
            f = v["finding"]
            if f not in self.viol:
                self.viol[f] = [case, v["msg"], 0]
                self.prefix[f] = list(chunk[:ci])
            self.viol[f][2] += 1
        self._last = chunk[-2:] if chunk else []

    def finish_samples(self):
        for c in getattr(self, "_last", []):
            if c not in self.samples:
                self.samples.append(c)


def scope_explore(mod, tier, seed, report, pool, chunk=None):
    """Exhaustively run every case of mod.cases(tier, seed) on the real code."""
    chunk = chunk or getattr(mod, "CHUNK", 64)
    budget = float(os.environ.get("VERIF_BUDGET_S", "0") or 0)
    gen = chunked(mod.cases(tier, seed), chunk)
    import collections
    pending = collections.deque()

    def feeder():
        for c in gen:
            pending.append(c)
            yield c

    for agg in pool.imap(_run_chunk_isolated, feeder()):
        c = pending.popleft()
        report.add_chunk(c, agg)
        if budget and time.time() - report.t0 > budget:
            report.exhaustive = False
            report.caps.append("time budget %.0fs hit after %d cases" % (budget, report.cases))
            break
    report.finish_samples()


# ----------------------------------------------------------------------------- main entry


def write_replay(pid, finding, case, msg, prefix=None):
    d = os.path.join(VERIF, "replays", pid)
    os.makedirs(d, exist_ok=True)
    rec = {"property": pid, "finding": finding, "case": case, "msg": msg}
    if prefix:
        rec["prefix"] = prefix
        rec["note"] = "the violation only shows after the prefix cases have run in the same process (process-global state)"
    path = os.path.join(d, "%s.json" % sha([finding, case]))
    with open(path, "w") as f:
        f.write(json.dumps(rec, indent=1, default=_jsonable))
    return path


def confirm_replay(pid, path):
    """Re-execute a recorded case twice in fresh processes; identical observations required."""
    outs = []
    for _ in range(2):
        p = subprocess.run(
            [sys.executable, "-m", "mc.core", pid, "--replay", path, "--quiet"],
            cwd=VERIF,
            capture_output=True,
            text=True,
            env=dict(os.environ),
        )
        last = [l for l in p.stdout.splitlines() if l.startswith("REPLAY-RESULT")]
        outs.append((p.returncode, last[-1] if last else p.stdout[-300:] + p.stderr[-300:]))
    return outs[0] == outs[1] and outs[0][0] == 1, outs


def replay(pid, path, quiet=False):
    setup_library()
    mod = importlib.import_module("mc.props.%s" % pid.lower())
    if hasattr(mod, "worker_init"):
        mod.worker_init()
    rec = json.load(open(path))
    case = rec["case"]
    for pc in rec.get("prefix", []):  # history inside one process
        _safe_run(mod, pc)
    if hasattr(mod, "replay_case"):
        r = mod.replay_case(case)
    else:
        r = _safe_run(mod, case)
    findings = sorted(set(v["finding"] for v in r["violations"]))
    hit = rec.get("finding") in findings if rec.get("finding") else bool(findings)
    print("REPLAY-RESULT property=%s reproduced=%s findings=%s" % (pid, hit, findings))
    if not quiet:
        for v in r["violations"][:10]:
            print("  ", v["finding"], "|", v["msg"])
    return 1 if findings else 0


def write_evidence(mod, report, nviol):
    cov = {
        "states": int(report.states if report.states is not None else report.cases),
        "transitions": int(report.checks),
        "traces_validated_against_impl": int(report.cases),
        "evaluations": int(report.cases),
        "distinct_nontrivial": int(report.nontrivial),
        "rule": getattr(mod, "RULE", ""),
        "samples": json.loads(json.dumps(report.samples[:8], default=_jsonable)),
        "exhaustive": bool(report.exhaustive),
        "distinct_observed_outcomes": len(report.outcomes),
        "outcome_census": dict(sorted(report.outcomes.items(), key=lambda kv: -kv[1])[:40]),
        "caps_hit": report.caps,
        "bounds": mod.bounds(report.tier) if hasattr(mod, "bounds") else getattr(mod, "BOUNDS", {}).get(report.tier, ""),
        "engine": getattr(mod, "ENGINE", "scope"),
        "known_findings_reported": sorted(getattr(report, "known_hit", [])),
    }
    cov.update(report.extra)
    ev = {
        "property_id": mod.ID,
        "tier": report.tier,
        "seed": int(report.seed),
        "level": "model_checking",
        "coverage": cov,
        "assumptions": list(getattr(mod, "ASSUMPTIONS", []))
        + [
            "pure-Python path of the library (numba absent in this image: numba_util.jit is a no-op)",
            "reference models written in numpy are trusted",
            "statement limited to the enumerated bounds and value alphabets",
        ],
        "wall_s": round(time.time() - report.t0, 2),
        "violations": int(nviol),
    }
    # runs against a scratch copy of the library (seeded changes, development) may redirect their evidence elsewhere
    evdir = os.environ.get("VERIF_EVIDENCE_DIR") or os.path.join(VERIF, "evidence")
    os.makedirs(evdir, exist_ok=True)
    path = os.path.join(evdir, "%s.json" % mod.ID)
    tmp = path + ".tmp"
    with open(tmp, "w") as f:
        json.dump(ev, f, indent=1, default=_jsonable)
    os.replace(tmp, path)
    return path


def main(argv=None):
    argv = list(sys.argv[1:] if argv is None else argv)
    if not argv:
        print("usage: check Cnn [--tier quick|thorough] [--replay path]")
        return 2
    pid = argv[0].upper()
    tier = os.environ.get("VERIF_TIER", "quick")
    seed = int(os.environ.get("VERIF_SEED", "0") or 0)
    rp = None
    quiet = False
    i = 1
    while i < len(argv):
        if argv[i] == "--tier":
            tier = argv[i + 1]
            i += 2
        elif argv[i] == "--replay":
            rp = argv[i + 1]
            i += 2
        elif argv[i] == "--quiet":
            quiet = True
            i += 1
        elif argv[i] == "--jobs":
            global NPROC
            NPROC = int(argv[i + 1])
            i += 2
        else:
            print("unknown argument", argv[i])
            return 2
    if tier not in ("quick", "thorough"):
        print("bad tier", tier)
        return 2
    if rp:
        return replay(pid, rp, quiet)

    setup_library()
    modname = "mc.props.%s" % pid.lower()
    mod = importlib.import_module(modname)
    report = Report(pid, tier, seed)
    pool = Pool(modname, NPROC)
    try:
        if hasattr(mod, "explore"):
            mod.explore(tier, seed, report, pool)
        else:
            scope_explore(mod, tier, seed, report, pool)
    finally:
        pool.close()

    known, fixed = load_known(pid)
    report.known_hit = []
    new = []
    for f, (case, msg, n) in sorted(report.viol.items()):
        if f in known:
            report.known_hit.append(f)
            print("KNOWN-FINDING: property=%s %s (%d cases) %s" % (pid, f, n, known[f].get("what", "")))
        else:
            new.append((f, case, msg, n))
    rc = 0
    for f, case, msg, n in new:
        path = write_replay(pid, f, case, msg)
        tag = ""
        if len([x for x in new if x[0] <= f]) <= 4 and os.environ.get("VERIF_NOCONFIRM") != "1":
            okc, outs = confirm_replay(pid, path)
            if not okc and report.prefix.get(f):
                # not reproducible in isolation: replay the cases that preceded it in its worker process as well
                path = write_replay(pid, f, case, msg, prefix=report.prefix[f])
                okc, outs = confirm_replay(pid, path)
                tag = " needs-process-history"
            if not okc:
                print("HARNESS-ERROR property=%s finding=%s replay not reproducible: %s" % (pid, f, outs))
                rc = max(rc, 2)
                continue
            tag = " confirmed=2/2" + tag
        print("VIOLATION property=%s replay=%s finding=%s cases=%d%s :: %s" % (pid, path, f, n, tag, msg[:300]))
        rc = max(rc, 1)
    path = write_evidence(mod, report, len(new))
    print(
        "%s tier=%s seed=%d cases=%d transitions=%d nontrivial=%d outcomes=%d exhaustive=%s wall=%.1fs evidence=%s"
        % (pid, tier, seed, report.cases, report.checks, report.nontrivial, len(report.outcomes), report.exhaustive,
           time.time() - report.t0, path)
    )
    if report.cases == 0 or report.checks == 0:
        print("HARNESS-ERROR property=%s nothing explored" % pid)
        rc = max(rc, 2)
    return rc


if __name__ == "__main__":
    sys.exit(main())
