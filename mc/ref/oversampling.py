"""Reference model of uniform over-sampling, written from the definition (explicit loops, numpy only).

Conventions (same as the library's public contract): mask True = masked; pixel (i, j) of an HxW frame with pixel
scales (sy, sx) and origin (oy, ox) is centred at y = oy + ((H-1)/2 - i)*sy, x = ox + (j - (W-1)/2)*sx; slim order is
row-major over unmasked pixels; inside a pixel the s x s partition is listed top-to-bottom, left-to-right.
"""
import numpy as np


def pixel_centres(m, sy, sx, oy, ox):
    H, W = m.shape
    out = []
    for i in range(H):
        for j in range(W):
            if not m[i, j]:
                out.append((oy + ((H - 1) / 2.0 - i) * sy, ox + (j - (W - 1) / 2.0) * sx))
    return np.array(out, dtype=float).reshape(-1, 2)


def sub_grid(m, sy, sx, oy, ox, submap):
    """(points [sum s_k^2, 2], owner [sum s_k^2]) : centres of the uniform s_k x s_k partition of every unmasked pixel."""
    H, W = m.shape
    pts, owner = [], []
    k = 0
    for i in range(H):
        for j in range(W):
            if m[i, j]:
                continue
            s = int(submap[k])
            cy = oy + ((H - 1) / 2.0 - i) * sy
            cx = ox + (j - (W - 1) / 2.0) * sx
            top = cy + sy / 2.0
            left = cx - sx / 2.0
            for a in range(s):
                for b in range(s):
                    pts.append((top - (a + 0.5) * sy / s, left + (b + 0.5) * sx / s))
                    owner.append(k)
            k += 1
    return np.array(pts, dtype=float).reshape(-1, 2), np.array(owner, dtype=int)


def sub_native_index(m, s):
    """Native (row, col) index on the s-times finer frame of every sub-pixel (uniform sub-size only)."""
    H, W = m.shape
    out = []
    for i in range(H):
        for j in range(W):
            if not m[i, j]:
                for a in range(s):
                    for b in range(s):
                        out.append((i * s + a, j * s + b))
    return np.array(out, dtype=int).reshape(-1, 2)


def bin_mean(values, owner, n):
    """Arithmetic mean of the sub-values owned by each pixel."""
    tot = [0.0] * n
    cnt = [0] * n
    for v, k in zip(np.asarray(values, dtype=float).tolist(), owner.tolist()):
        tot[k] += v
        cnt[k] += 1
    return np.array([t / c for t, c in zip(tot, cnt)], dtype=float)


def adaptive_sub_map(m, sy, sx, oy, ox, centre, radial_factors, sub_sizes):
    """Sub-size map of the config-driven adaptive scheme: the profile centre is snapped to the centre of the pixel
    that contains it; a pixel whose centre lies at distance r from it gets sub_sizes[j] for the first j with
    r < min(sy, sx) * radial_factors[j], and sub_sizes[-1] beyond the last radius.
    Returns (map, min distance of any r to any threshold) so the caller can exclude ties."""
    H, W = m.shape
    top = oy + H * sy / 2.0
    left = ox - W * sx / 2.0
    pi = int(np.floor((top - centre[0]) / sy))
    pj = int(np.floor((centre[1] - left) / sx))
    c = (oy + ((H - 1) / 2.0 - pi) * sy, ox + (pj - (W - 1) / 2.0) * sx)
    cen = pixel_centres(m, sy, sx, oy, ox)
    thr = [min(sy, sx) * f for f in radial_factors]
    out, margin = [], np.inf
    for (y, x) in cen:
        r = float(np.hypot(y - c[0], x - c[1]))
        s = sub_sizes[-1]
        for j, t in enumerate(thr):
            if r < t:
                s = sub_sizes[j]
                break
        for t in thr:
            margin = min(margin, abs(r - t))
        out.append(int(s))
    return np.array(out, dtype=int), margin
