"""
Reference model of 2D PSF convolution on a pixel frame (shared by C03, C04, ...).

Dependency-free on purpose: numpy only, explicit loops, no scipy, no autoarray. Everything here is
written from the *definition* of a true two-dimensional convolution with a centred kernel and zero
padding outside the frame:

    out[ty, tx] = sum over sources (sy, sx) inside the frame of
                  img[sy, sx] * K[ty - sy + half_y, tx - sx + half_x]

with ``half_y = kh // 2``, ``half_x = kw // 2`` and the term dropped whenever the kernel index falls
outside ``0 <= . < kh`` / ``0 <= . < kw``.  Equivalently a source pixel ``s`` deposits
``img[s] * K[i, j]`` into the target ``t = s - half + (i, j)``; equivalently
``out[t] = sum_{i,j} K[i, j] * img[t + half - (i, j)]`` (the kernel is *flipped* when it is slid over
the image, which is what distinguishes convolution from correlation).  Only odd ``kh``, ``kw`` have a
centre pixel; even shapes are refused.

Pixels are addressed row-major: flat index ``p = y * W + x``.
"""
import numpy as np


def _check_kernel(kernel2d):
    k = np.asarray(kernel2d, dtype=float)
    if k.ndim != 2:
        raise ValueError("kernel must be 2D, got ndim=%d" % k.ndim)
    kh, kw = k.shape
    if kh % 2 == 0 or kw % 2 == 0:
        raise ValueError("reference convolution is defined for odd kernel shapes only, got %s" % (k.shape,))
    return k, kh, kw


def conv_matrix(native_shape, kernel2d):
    """
    Dense ``(H*W, H*W)`` matrix ``M`` of the convolution operator on an ``H x W`` frame, so that
    ``(M @ img.ravel()).reshape(H, W)`` is the true convolution of ``img`` with ``kernel2d``
    (flipped, centred kernel; zero outside the frame; output restricted to the frame).

    ``M[t, s] = K[ty - sy + kh//2, tx - sx + kw//2]`` if that kernel index exists, else 0, where
    ``t = ty*W + tx`` is the *target* (row) and ``s = sy*W + sx`` the *source* (column).

    Sub-operators are obtained by fancy indexing, e.g. for a mask with unmasked flat indices ``u`` and
    blurring-region flat indices ``b``: ``M[np.ix_(u, u)]`` is the mask -> mask blurring operator and
    ``M[np.ix_(u, b)]`` the blurring-region -> mask operator.
    """
    H, W = int(native_shape[0]), int(native_shape[1])
    k, kh, kw = _check_kernel(kernel2d)
    hy, hx = kh // 2, kw // 2
    n = H * W
    M = np.zeros((n, n))
    for sy in range(H):
        for sx in range(W):
            s = sy * W + sx
            for ty in range(H):
                i = ty - sy + hy
                if i < 0 or i >= kh:
                    continue
                for tx in range(W):
                    j = tx - sx + hx
                    if j < 0 or j >= kw:
                        continue
                    M[ty * W + tx, s] = k[i, j]
    return M


def convolve_native(image2d, kernel2d):
    """
    True convolution of a native ``H x W`` image by direct summation (a second, matrix-free statement
    of the same definition; used to cross-check ``conv_matrix`` in ``self_test``).
    """
    img = np.asarray(image2d, dtype=float)
    H, W = img.shape
    k, kh, kw = _check_kernel(kernel2d)
    hy, hx = kh // 2, kw // 2
    out = np.zeros((H, W))
    for ty in range(H):
        for tx in range(W):
            acc = 0.0
            for i in range(kh):
                sy = ty + hy - i
                if sy < 0 or sy >= H:
                    continue
                for j in range(kw):
                    sx = tx + hx - j
                    if sx < 0 or sx >= W:
                        continue
                    acc += k[i, j] * img[sy, sx]
            out[ty, tx] = acc
    return out


def convolve_native_shift(image2d, kernel2d):
    """
    Third statement of the same definition, usable on large frames: shift-and-add,
    ``out = sum_{i,j} K[i, j] * shift(img, by (i - half_y, j - half_x))`` with zeros shifted in, i.e.
    ``out[t] = sum_{i,j} K[i, j] * img[t + half - (i, j)]``.  numpy slices only (no scipy, no FFT): every output
    pixel is the sum, in row-major kernel order, of exactly the products the definition names, so it is exactly
    0 wherever every contributing image pixel is 0 and its rounding error at a pixel is bounded by
    ``(kh*kw) * eps * local_magnitude`` at that pixel.
    """
    img = np.asarray(image2d, dtype=float)
    H, W = img.shape
    k, kh, kw = _check_kernel(kernel2d)
    hy, hx = kh // 2, kw // 2
    pad = np.zeros((H + 2 * hy, W + 2 * hx))
    pad[hy:hy + H, hx:hx + W] = img
    out = np.zeros((H, W))
    for i in range(kh):
        for j in range(kw):
            out += k[i, j] * pad[2 * hy - i:2 * hy - i + H, 2 * hx - j:2 * hx - j + W]
    return out


def local_magnitude(image2d, kernel2d):
    """
    ``sum_{i,j} |K[i, j]| * |img[t + half - (i, j)]|`` at every pixel ``t``: the magnitude of the terms the
    definition sums for that pixel.  Any floating-point evaluation of that sum (in any order) is within
    ``n_terms * eps`` times this number of the exact value; it is 0 exactly where the pixel sees only zeros.
    """
    return convolve_native_shift(np.abs(np.asarray(image2d, dtype=float)), np.abs(np.asarray(kernel2d, dtype=float)))


def reach_region(mask2d, kernel_shape):
    """
    Boolean ``H x W`` array, True at every *masked* pixel from which a kernel of shape
    ``kernel_shape`` (odd) can carry light into at least one unmasked pixel, i.e. masked ``s`` with
    some unmasked ``t`` such that ``|ty-sy| <= kh//2`` and ``|tx-sx| <= kw//2`` (the blurring region
    clipped to the frame).  ``mask2d`` is True where masked.
    """
    m = np.asarray(mask2d, dtype=bool)
    H, W = m.shape
    hy, hx = int(kernel_shape[0]) // 2, int(kernel_shape[1]) // 2
    out = np.zeros((H, W), dtype=bool)
    for sy in range(H):
        for sx in range(W):
            if not m[sy, sx]:
                continue
            hit = False
            for ty in range(max(0, sy - hy), min(H, sy + hy + 1)):
                for tx in range(max(0, sx - hx), min(W, sx + hx + 1)):
                    if not m[ty, tx]:
                        hit = True
            out[sy, sx] = hit
    return out


def footprint_inside(mask2d, kernel_shape):
    """True iff the kernel footprint centred on every unmasked pixel stays inside the frame."""
    m = np.asarray(mask2d, dtype=bool)
    H, W = m.shape
    hy, hx = int(kernel_shape[0]) // 2, int(kernel_shape[1]) // 2
    ys, xs = np.nonzero(~m)
    if len(ys) == 0:
        return True
    return bool(ys.min() - hy >= 0 and ys.max() + hy < H and xs.min() - hx >= 0 and xs.max() + hx < W)


def self_test():
    """Internal consistency of the two statements of the definition + two hand-computed values."""
    r = np.random.RandomState(0)
    for (H, W) in [(1, 1), (1, 4), (3, 3), (4, 5), (5, 3)]:
        for (kh, kw) in [(1, 1), (1, 3), (3, 1), (3, 3), (5, 3), (3, 5)]:
            k = r.randn(kh, kw)
            img = r.randn(H, W)
            a = (conv_matrix((H, W), k) @ img.ravel()).reshape(H, W)
            b = convolve_native(img, k)
            assert np.allclose(a, b, rtol=0, atol=1e-13), ((H, W), (kh, kw))
            c = convolve_native_shift(img, k)
            assert np.allclose(c, b, rtol=0, atol=1e-13), ((H, W), (kh, kw))
            z = img.copy()
            z[: H // 2 + 1, :] = 0.0  # pixels that see only zeros are exactly zero in the shift-and-add form
            lm = local_magnitude(z, k)
            assert np.all(convolve_native_shift(z, k)[lm == 0.0] == 0.0)
            assert np.all(np.abs(convolve_native_shift(z, k) - convolve_native(z, k)) <= 1e-13 * lm)
    # hand example: delta at the centre reproduces the kernel itself (not its flip)
    k = np.arange(1.0, 10.0).reshape(3, 3)
    img = np.zeros((3, 3))
    img[1, 1] = 1.0
    assert np.array_equal(convolve_native(img, k), k)
    # hand example: delta at (0,0) in a 3x3 frame -> lower-right 2x2 block of the kernel lands top-left
    img = np.zeros((3, 3))
    img[0, 0] = 1.0
    want = np.zeros((3, 3))
    want[0:2, 0:2] = k[1:3, 1:3]
    assert np.array_equal(convolve_native(img, k), want)
    return True
