"""
Reference model of a uniform rectangular mesh overlaid on a cloud of (y, x) points (shared by C06 -
mapping matrices - and C07 - regularization, which imports the adjacency).

Dependency-free on purpose: numpy only, explicit loops, no autoarray.  Written from the documented geometry
of ``Mesh2DRectangular.overlay_grid(shape_native=(R, C), grid, buffer=1e-8)``:

* the mesh is the axis-aligned **bounding box of the points, enlarged by ``buffer`` on every side**:
  ``y in [min(y) - buffer, max(y) + buffer]``, ``x in [min(x) - buffer, max(x) + buffer]``;
* the box is split into ``R`` rows of equal height and ``C`` columns of equal width;
* pixels are numbered from the **top-left, rightwards then downwards**: row 0 is the row with the
  *largest* y, column 0 the column with the *smallest* x, and pixel ``p = row * C + col`` (the library's
  "(y, x), +y is up" convention);
* hence ``pixel_scales = (height / R, width / C)``, ``origin`` = centre of the box, and the centre of
  pixel ``(row, col)`` is ``(y_top - (row + 1/2) * dy, x_left + (col + 1/2) * dx)``.

A point belongs to the cell whose closed-open rectangle contains it.  The cell is found here by
*interval arithmetic on the edge positions* (counting how many interior edges lie above / to the left of
the point), not by the divide-and-truncate formula of the code under test.  Callers keep points a safety
margin away from interior edges so that no tie is decided by rounding (:func:`cells_of` returns the
distance to the nearest interior edge for that purpose).

Mesh adjacency is 4-connectivity: ``(row, col)`` is a neighbour of ``(row +- 1, col)`` and
``(row, col +- 1)`` where those exist.
"""
import numpy as np

BUFFER = 1e-8  # documented default of Mesh2DRectangular.overlay_grid


def overlay_geometry(points, shape_native, buffer=BUFFER):
    """
    Geometry of the ``R x C`` mesh overlaid on ``points`` (array ``(S, 2)`` of (y, x)).

    Returns a dict with

    ``y_top, y_bottom, x_left, x_right``   the four sides of the (buffered) bounding box,
    ``dy, dx``                             cell height and width (= the mesh ``pixel_scales``),
    ``origin``                             centre of the box ``(y, x)``,
    ``y_edges``                            the ``R + 1`` horizontal edge positions from the top down
                                           (``y_edges[0] = y_top``, ``y_edges[R] = y_bottom``),
    ``x_edges``                            the ``C + 1`` vertical edge positions from the left
                                           (``x_edges[0] = x_left``, ``x_edges[C] = x_right``),
    ``centres``                            array ``(R*C, 2)`` of pixel centres in pixel-index order.
    """
    pts = np.asarray(points, dtype=float).reshape(-1, 2)
    R, C = int(shape_native[0]), int(shape_native[1])
    y_bottom = float(np.min(pts[:, 0])) - buffer
    y_top = float(np.max(pts[:, 0])) + buffer
    x_left = float(np.min(pts[:, 1])) - buffer
    x_right = float(np.max(pts[:, 1])) + buffer
    dy = (y_top - y_bottom) / R
    dx = (x_right - x_left) / C
    # edges as convex combinations of the two sides (no accumulated step error)
    y_edges = np.array([(y_top * (R - k) + y_bottom * k) / R for k in range(R + 1)])
    x_edges = np.array([(x_left * (C - k) + x_right * k) / C for k in range(C + 1)])
    centres = np.zeros((R * C, 2))
    for row in range(R):
        for col in range(C):
            centres[row * C + col, 0] = 0.5 * (y_edges[row] + y_edges[row + 1])
            centres[row * C + col, 1] = 0.5 * (x_edges[col] + x_edges[col + 1])
    return {
        "shape_native": (R, C),
        "y_top": y_top, "y_bottom": y_bottom, "x_left": x_left, "x_right": x_right,
        "dy": dy, "dx": dx,
        "origin": (0.5 * (y_top + y_bottom), 0.5 * (x_left + x_right)),
        "y_edges": y_edges, "x_edges": x_edges, "centres": centres,
    }


def cells_of(points, geom):
    """
    Cell of every point: returns ``(row, col, index, edge_distance, inside)`` (arrays of length ``S``).

    ``row`` = the number of interior horizontal edges ``y_edges[1..R-1]`` that lie above the point
    (``y < edge``: every such edge pushes the point one row further down); ``col`` = the number of interior
    vertical edges ``x_edges[1..C-1]`` that lie to the left of the point or on it (``x >= edge``);
    ``index = row * C + col``.
    ``edge_distance`` = distance of the point from the nearest interior edge of either family (``inf`` for a
    1x1 mesh), in the units of the points.  ``inside`` = the point lies within the outer box.
    """
    pts = np.asarray(points, dtype=float).reshape(-1, 2)
    R, C = geom["shape_native"]
    ye, xe = geom["y_edges"], geom["x_edges"]
    y = pts[:, 0][:, None]
    x = pts[:, 1][:, None]
    yi = ye[1:R][None, :]  # interior horizontal edges
    xi = xe[1:C][None, :]  # interior vertical edges
    row = np.sum(y < yi, axis=1).astype(int)
    col = np.sum(x >= xi, axis=1).astype(int)
    dist = np.full(len(pts), np.inf)
    if R > 1:
        dist = np.minimum(dist, np.min(np.abs(y - yi), axis=1))
    if C > 1:
        dist = np.minimum(dist, np.min(np.abs(x - xi), axis=1))
    inside = (pts[:, 0] >= ye[R]) & (pts[:, 0] <= ye[0]) & (pts[:, 1] >= xe[0]) & (pts[:, 1] <= xe[C])
    return row, col, row * C + col, dist, inside


def adjacency(shape_native):
    """``adj[p]`` = set of the (at most four) pixels sharing a side with pixel ``p`` (4-connectivity)."""
    R, C = int(shape_native[0]), int(shape_native[1])
    adj = [set() for _ in range(R * C)]
    for row in range(R):
        for col in range(C):
            p = row * C + col
            if row > 0:
                adj[p].add((row - 1) * C + col)
            if row < R - 1:
                adj[p].add((row + 1) * C + col)
            if col > 0:
                adj[p].add(row * C + col - 1)
            if col < C - 1:
                adj[p].add(row * C + col + 1)
    return adj


def edges(shape_native):
    """Set of undirected mesh edges ``(p, q)``, ``p < q``."""
    e = set()
    for p, nb in enumerate(adjacency(shape_native)):
        for q in nb:
            e.add((min(p, q), max(p, q)))
    return e
