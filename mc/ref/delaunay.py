"""
Reference model of a planar Delaunay triangulation and of linear (barycentric) interpolation on it
(shared by C06 - mapping matrices - and C07 - regularization, which imports the adjacency).

Dependency-free on purpose: numpy only, no scipy / qhull, no autoarray.  Everything is written from the
*definitions*:

* **Delaunay triangle**: three vertices ``a, b, c`` (not collinear) form a triangle of the Delaunay
  triangulation of a point set *iff* the open disc bounded by the circle through ``a, b, c`` contains no
  other vertex of the set (the *empty circumcircle* criterion).  For a point set in *general position*
  (no three vertices collinear, no four on a common circle) the set of such triples is exactly the
  unique Delaunay triangulation, it tiles the convex hull, and no floating-point tie is involved if the
  general-position *margins* computed by :func:`general_position_margins` are comfortably positive.
  The test is done for every one of the ``C(N,3)`` triples against every other vertex: ``O(N^4)``,
  meant for ``N <= ~12``.
* **Edges / adjacency**: two vertices are neighbours iff they are two corners of a common Delaunay triangle
  (hull edges included, because every hull edge is a side of a triangle).
* **Barycentric coordinates** of a point ``q`` in triangle ``(a, b, c)``: the unique ``(l0, l1, l2)`` with
  ``l0 + l1 + l2 = 1`` and ``l0*a + l1*b + l2*c = q`` - obtained by solving that 3x3 linear system.
  ``q`` is inside the triangle iff all three are positive; ``l_k`` times the altitude over the side
  opposite to corner ``k`` is the signed distance of ``q`` from that side (positive = inner side).
* **Outside the hull** (``q`` inside no triangle) the interpolation degenerates to the single *nearest
  vertex* (Euclidean distance) with weight 1.

Coordinates are ``(y, x)`` pairs as everywhere in the library under test, but nothing here depends on
the orientation convention (all criteria are invariant under reflections).

All indices refer to rows of the ``points`` array.  Triangles are returned with their three vertex
indices sorted increasingly and the list of triangles sorted lexicographically, so the output is
canonical.
"""
import itertools

import numpy as np


# ----------------------------------------------------------------------------- circumcircles


def circumcircle(a, b, c):
    """
    Centre ``(y, x)`` and radius of the circle through the three points ``a, b, c`` and twice the signed
    area of the triangle.  The centre is the solution of ``|p - a|^2 = |p - b|^2 = |p - c|^2``, i.e. the
    2x2 linear system ``2 (b - a) . p = |b|^2 - |a|^2``, ``2 (c - a) . p = |c|^2 - |a|^2`` (solved relative to
    ``a`` for accuracy).  Raises ``ZeroDivisionError`` for exactly collinear points.
    """
    a = np.asarray(a, dtype=float)
    b = np.asarray(b, dtype=float)
    c = np.asarray(c, dtype=float)
    u = b - a
    w = c - a
    det = u[0] * w[1] - u[1] * w[0]  # twice the signed area
    if det == 0.0:
        raise ZeroDivisionError("collinear points have no circumcircle")
    uu = u[0] * u[0] + u[1] * u[1]
    ww = w[0] * w[0] + w[1] * w[1]
    # Cramer's rule on [[u0,u1],[w0,w1]] p = [uu/2, ww/2]
    p0 = (uu * w[1] - ww * u[1]) / (2.0 * det)
    p1 = (ww * u[0] - uu * w[0]) / (2.0 * det)
    centre = a + np.array([p0, p1])
    radius = float(np.hypot(p0, p1))
    return centre, radius, float(det)


def min_altitude(a, b, c):
    """Smallest of the three altitudes of triangle ``a, b, c`` (= 2*area / longest side)."""
    a = np.asarray(a, dtype=float)
    b = np.asarray(b, dtype=float)
    c = np.asarray(c, dtype=float)
    u = b - a
    w = c - a
    area2 = abs(u[0] * w[1] - u[1] * w[0])
    longest = max(np.hypot(*(b - a)), np.hypot(*(c - b)), np.hypot(*(a - c)))
    if longest == 0.0:
        return 0.0
    return float(area2 / longest)


def analyse(points):
    """
    One pass over all ``C(N,3)`` vertex triples (vectorised over the triples with numpy; the formulas are
    those of :func:`circumcircle` and :func:`min_altitude`, which are kept as the readable scalar
    definitions and are cross-checked against this function by :func:`selftest`).

    Returns ``(triangles, margins)``:

    ``triangles``  the Delaunay triangulation: sorted index triples ``(i, j, k)``, ``i < j < k``, in
                   lexicographic order.  A triple is kept iff it is not collinear and no other vertex lies
                   strictly inside its circumcircle.
    ``margins``    how far the point set is from a degenerate configuration, as two lengths in the units of
                   ``points``:
                   ``collinear``  = the smallest altitude over all vertex triples (0 = three collinear or two
                   coincident vertices);
                   ``cocircular`` = the smallest ``| |d - centre| - radius |`` over all non-degenerate
                   triples and all other vertices ``d`` (0 = four vertices on one circle, i.e. an ambiguous
                   triangulation).
                   A vertex set is accepted by the checks only if both exceed their thresholds, so that
                   neither qhull nor this reference decides anything by a rounding error.
    """
    pts = np.asarray(points, dtype=float)
    n = len(pts)
    if n < 3:
        return [], {"collinear": np.inf, "cocircular": np.inf}
    idx = np.array(list(itertools.combinations(range(n), 3)), dtype=int)  # (T, 3), lexicographic
    a, b, c = pts[idx[:, 0]], pts[idx[:, 1]], pts[idx[:, 2]]
    u = b - a
    w = c - a
    det = u[:, 0] * w[:, 1] - u[:, 1] * w[:, 0]  # twice the signed area
    longest = np.maximum(np.maximum(np.hypot(u[:, 0], u[:, 1]), np.hypot(w[:, 0], w[:, 1])),
                         np.hypot(c[:, 0] - b[:, 0], c[:, 1] - b[:, 1]))
    with np.errstate(divide="ignore", invalid="ignore"):
        alt = np.where(longest > 0.0, np.abs(det) / longest, 0.0)
        uu = u[:, 0] ** 2 + u[:, 1] ** 2
        ww = w[:, 0] ** 2 + w[:, 1] ** 2
        p0 = (uu * w[:, 1] - ww * u[:, 1]) / (2.0 * det)
        p1 = (ww * u[:, 0] - uu * w[:, 0]) / (2.0 * det)
    centre = a + np.stack([p0, p1], axis=1)
    radius = np.hypot(p0, p1)
    nondeg = alt > 0.0
    # distance of every vertex from every circumcentre, own corners excluded
    d = np.hypot(pts[None, :, 0] - centre[:, 0, None], pts[None, :, 1] - centre[:, 1, None])  # (T, N)
    own = np.zeros(d.shape, dtype=bool)
    for col in range(3):
        own[np.arange(len(idx)), idx[:, col]] = True
    other = ~own & nondeg[:, None]
    with np.errstate(invalid="ignore"):
        strictly_inside = other & (d < radius[:, None])
        gap = np.where(other, np.abs(d - radius[:, None]), np.inf)
    keep = nondeg & ~strictly_inside.any(axis=1)
    triangles = [tuple(int(x) for x in row) for row in idx[keep]]
    margins = {"collinear": float(np.min(alt)), "cocircular": float(np.min(gap)) if gap.size else np.inf}
    return triangles, margins


def general_position_margins(points):
    """The ``margins`` part of :func:`analyse`."""
    return analyse(points)[1]


def triangulate(points):
    """The ``triangles`` part of :func:`analyse`: Delaunay triangulation by the empty-circumcircle test."""
    return analyse(points)[0]


def triangulate_scalar(points):
    """
    The same triangulation written with plain loops over triples and vertices (the literal ``O(N^4)``
    definition).  Slow; used by :func:`selftest` to validate the vectorised :func:`analyse`.
    """
    pts = np.asarray(points, dtype=float)
    n = len(pts)
    tris = []
    for i, j, k in itertools.combinations(range(n), 3):
        if min_altitude(pts[i], pts[j], pts[k]) <= 0.0:
            continue
        centre, radius, _ = circumcircle(pts[i], pts[j], pts[k])
        empty = True
        for m in range(n):
            if m == i or m == j or m == k:
                continue
            if np.hypot(pts[m, 0] - centre[0], pts[m, 1] - centre[1]) < radius:
                empty = False
                break
        if empty:
            tris.append((i, j, k))
    return tris


def edges_from_triangles(triangles):
    """Set of undirected edges ``(i, j)``, ``i < j``: every side of every triangle."""
    e = set()
    for (i, j, k) in triangles:
        for a, b in ((i, j), (i, k), (j, k)):
            e.add((min(a, b), max(a, b)))
    return e


def adjacency_from_triangles(n_points, triangles):
    """``adj[p]`` = set of vertices sharing a Delaunay edge with vertex ``p`` (symmetric by construction)."""
    adj = [set() for _ in range(n_points)]
    for a, b in edges_from_triangles(triangles):
        adj[a].add(b)
        adj[b].add(a)
    return adj


def adjacency(points):
    """Convenience for C07: adjacency list (list of sets) of the Delaunay triangulation of ``points``."""
    pts = np.asarray(points, dtype=float)
    return adjacency_from_triangles(len(pts), triangulate(pts))


def triangulation_area_check(points, triangles):
    """
    Self-check of the reference: ``(sum of triangle areas, area of the convex hull)``.  A correct
    triangulation tiles the hull, so the two agree.  The hull area is computed independently (gift
    wrapping + shoelace formula).
    """
    pts = np.asarray(points, dtype=float)
    tri_area = 0.0
    for (i, j, k) in triangles:
        u = pts[j] - pts[i]
        w = pts[k] - pts[i]
        tri_area += 0.5 * abs(u[0] * w[1] - u[1] * w[0])
    # gift wrapping
    n = len(pts)
    start = int(np.lexsort((pts[:, 0], pts[:, 1]))[0])  # smallest x, then smallest y
    hull = [start]
    cur = start
    while True:
        nxt = (cur + 1) % n
        for m in range(n):
            if m == cur:
                continue
            u = pts[nxt] - pts[cur]
            w = pts[m] - pts[cur]
            cross = u[0] * w[1] - u[1] * w[0]
            if cross > 0 or (cross == 0 and np.hypot(*w) > np.hypot(*u)):
                nxt = m
        if nxt == start or len(hull) > n:
            break
        hull.append(nxt)
        cur = nxt
    hp = pts[hull]
    shoelace = 0.0
    for a in range(len(hp)):
        b = (a + 1) % len(hp)
        shoelace += hp[a, 0] * hp[b, 1] - hp[b, 0] * hp[a, 1]
    return float(tri_area), float(0.5 * abs(shoelace))


# ----------------------------------------------------------------------------- interpolation


def barycentric(a, b, c, q):
    """
    Barycentric coordinates ``(l0, l1, l2)`` of ``q`` with respect to the triangle ``a, b, c``: the solution of

        [ 1    1    1  ] [l0]   [ 1  ]
        [ a_y  b_y  c_y] [l1] = [ q_y]
        [ a_x  b_x  c_x] [l2]   [ q_x]
    """
    A = np.array([[1.0, 1.0, 1.0], [a[0], b[0], c[0]], [a[1], b[1], c[1]]], dtype=float)
    rhs = np.array([1.0, q[0], q[1]], dtype=float)
    return np.linalg.solve(A, rhs)


def _altitudes(a, b, c):
    """Altitude over the side opposite to each corner: (h_a, h_b, h_c)."""
    a = np.asarray(a, dtype=float)
    b = np.asarray(b, dtype=float)
    c = np.asarray(c, dtype=float)
    u = b - a
    w = c - a
    area2 = abs(u[0] * w[1] - u[1] * w[0])
    return np.array([area2 / np.hypot(*(c - b)), area2 / np.hypot(*(a - c)), area2 / np.hypot(*(b - a))])


def locate_many(points, triangles, queries):
    """
    Where each query point lies relative to the triangulation (vectorised over the query points; one 3x3
    solve per triangle with all queries as right-hand sides, i.e. :func:`barycentric` in batch).

    Returns ``(tri, weights, margin)``, each of length ``len(queries)``:

    ``tri[s]``      index into ``triangles`` of the triangle containing query ``s``, or ``-1`` if it is in none
                    (outside the convex hull); ``-2`` if it is strictly inside more than one triangle
                    (impossible for a valid triangulation; margin is then 0);
    ``weights[s]``  dict ``{vertex index: interpolation weight}`` - the three barycentric coordinates inside a
                    triangle, ``{nearest vertex: 1.0}`` outside the hull;
    ``margin[s]``   distance (units of ``points``) of the query from the nearest *decision boundary*: the
                    nearest line carrying a triangle side of any triangle whose classification
                    (inside / outside) it decides - computed as the minimum over all triangles of
                    ``| min_k l_k * h_k |`` (``l_k`` barycentric coordinate, ``h_k`` altitude over the side
                    opposite corner ``k``; ``l_k * h_k`` is the signed distance from that side, positive on
                    the inner side) - and, outside the hull, additionally the difference between the
                    distances to the second-nearest and the nearest vertex.
                    Callers discard / re-draw query points whose margin is below their threshold, so the
                    classification never hinges on rounding.
    """
    pts = np.asarray(points, dtype=float)
    Q = np.asarray(queries, dtype=float).reshape(-1, 2)
    S = len(Q)
    rhs = np.stack([np.ones(S), Q[:, 0], Q[:, 1]], axis=0)  # (3, S)
    n_inside = np.zeros(S, dtype=int)
    tri = -np.ones(S, dtype=int)
    lam_in = np.zeros((S, 3))
    margin = np.full(S, np.inf)
    for t, (i, j, k) in enumerate(triangles):
        a, b, c = pts[i], pts[j], pts[k]
        A = np.array([[1.0, 1.0, 1.0], [a[0], b[0], c[0]], [a[1], b[1], c[1]]])
        lam = np.linalg.solve(A, rhs)  # (3, S)
        dist = lam * _altitudes(a, b, c)[:, None]  # signed distances from the three sides
        dmin = dist.min(axis=0)
        margin = np.minimum(margin, np.abs(dmin))
        ins = dmin > 0.0
        n_inside += ins
        tri[ins] = t
        lam_in[ins] = lam[:, ins].T
    weights = []
    for s in range(S):
        if n_inside[s] > 1:
            tri[s] = -2
            margin[s] = 0.0
            weights.append(None)
        elif n_inside[s] == 1:
            i, j, k = triangles[tri[s]]
            weights.append({i: float(lam_in[s, 0]), j: float(lam_in[s, 1]), k: float(lam_in[s, 2])})
        else:
            d = np.hypot(pts[:, 0] - Q[s, 0], pts[:, 1] - Q[s, 1])
            order = np.argsort(d, kind="stable")
            gap = float(d[order[1]] - d[order[0]]) if len(d) > 1 else np.inf
            margin[s] = min(margin[s], gap)
            weights.append({int(order[0]): 1.0})
    return tri, weights, margin


def locate(points, triangles, q):
    """Single-point form of :func:`locate_many`: ``(tri, weights, margin)`` for one query ``q``."""
    tri, weights, margin = locate_many(points, triangles, [q])
    return int(tri[0]), weights[0], float(margin[0])


def selftest(n_sets=40, seed=0):
    """
    Validates this module against itself: vectorised vs. scalar triangulation, triangle areas tile the
    hull, barycentric coordinates reproduce the query and sum to one, adjacency symmetric, and Euler's
    relation ``T = 2N - 2 - hull`` / ``E = 3N - 3 - hull``.  Returns the number of sets checked; raises
    ``AssertionError`` on any disagreement.
    """
    r = np.random.RandomState(seed)
    done = 0
    for _ in range(n_sets):
        n = int(r.randint(4, 11))
        pts = r.uniform(-1, 1, size=(n, 2)) * np.array([r.uniform(0.5, 3.0), r.uniform(0.5, 3.0)])
        tris, mg = analyse(pts)
        if mg["collinear"] < 1e-3 or mg["cocircular"] < 1e-6:
            continue
        assert tris == triangulate_scalar(pts)
        ta, ha = triangulation_area_check(pts, tris)
        assert abs(ta - ha) < 1e-9 * max(1.0, ha), (ta, ha)
        adj = adjacency_from_triangles(n, tris)
        for p in range(n):
            for q in adj[p]:
                assert p in adj[q]
        E = len(edges_from_triangles(tris))
        assert E - len(tris) == n - 1, (E, len(tris), n)  # Euler: V - E + F = 1 (bounded faces only)
        Q = r.uniform(-1.2, 1.2, size=(30, 2)) * np.abs(pts).max(axis=0)
        tri, wts, margin = locate_many(pts, tris, Q)
        for s in range(len(Q)):
            if margin[s] < 1e-9:
                continue
            if tri[s] >= 0:
                rec = sum(w * pts[v] for v, w in wts[s].items())
                assert np.allclose(rec, Q[s], atol=1e-9)
                assert abs(sum(wts[s].values()) - 1.0) < 1e-12
                assert min(wts[s].values()) > 0
                i, j, k = tris[tri[s]]
                lam = barycentric(pts[i], pts[j], pts[k], Q[s])
                assert np.allclose(lam, [wts[s][i], wts[s][j], wts[s][k]], atol=1e-12)
        done += 1
    return done
