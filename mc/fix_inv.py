"""
Shared builders for inversion-level checks (C04, C05, C07 block placement, C08 evidence, C11, C15):
small imaging datasets on completely enumerated interior masks, a menu of linear objects, and
the reference normal equations built from first principles in numpy.
"""
import numpy as np

from mc import dom

# ----------------------------------------------------------------------------- reference algebra


def blur_matrix(mask_bool, kernel):
    """
    Dense operator C (n_unmasked x n_unmasked): true 2D convolution (flipped, centred kernel, zero outside the
    frame) of an image supported on the unmasked pixels, evaluated at the unmasked pixels.
        out[t] = sum_s img[s] * K[t - s + half]
    Written from the definition with explicit loops; independent of scipy and of the library's frame tables.
    """
    K = np.asarray(kernel, dtype=float)
    kh, kw = K.shape
    hy, hx = kh // 2, kw // 2
    pix = np.argwhere(~mask_bool)
    n = len(pix)
    C = np.zeros((n, n))
    for t, (ty, tx) in enumerate(pix):
        for s, (sy, sx) in enumerate(pix):
            a, b = ty - sy + hy, tx - sx + hx
            if 0 <= a < kh and 0 <= b < kw:
                C[t, s] = K[a, b]
    return C


def normal_equations(B, data, noise):
    w = 1.0 / noise ** 2
    D = B.T @ (w * data)
    F = B.T @ (w[:, None] * B)
    return D, F


# ----------------------------------------------------------------------------- dataset menu

PSF_KINDS = ("nonneg", "signed")
DATA_KINDS = ("mixed", "positive", "negative")


def kernel_values(kshape, kind, seed):
    kh, kw = kshape
    n = kh * kw
    r = dom.rng(seed, "psf", kshape, kind)
    base = (np.arange(n) * 5 % n + 1.0) / n + 0.05 * r.uniform(size=n)  # injective, positive
    if kind == "signed":
        sign = np.where(np.arange(n) % 3 == 1, -1.0, 1.0)
        base = base * sign
        if n >= 3:
            base[n // 2 - 1 if n > 3 else 0] = 0.0  # an exact zero entry
        if abs(base.sum()) < 0.2:
            base[0] += 1.0
    return base.reshape(kh, kw)


def make_dataset(frame, kshape, bits, psf_kind="nonneg", seed=0, sub=1, data_kind="mixed", scales=(1.0, 1.0),
                 origin=(0.0, 0.0), normalize=True, units=1.0, noise_factor=1.0):
    import autoarray as aa

    m = dom.interior_mask(tuple(frame), tuple(kshape), bits)
    mask = aa.Mask2D(mask=m, pixel_scales=scales, origin=origin)
    H, W = m.shape
    r = dom.rng(seed, "data", frame, data_kind)
    lab = np.arange(H * W, dtype=float).reshape(H, W)
    if data_kind == "mixed":
        dn = np.where((lab.astype(int) * 3) % 4 == 0, -1.0, 1.0) * (0.5 + (lab * 7 % 11) / 5.0) + 0.1 * r.normal(size=(H, W))
    elif data_kind == "positive":
        dn = 1.0 + (lab * 7 % 11) / 4.0 + 0.1 * r.uniform(size=(H, W))
    elif data_kind == "negative":
        dn = -(0.3 + (lab * 5 % 7) / 6.0) + 0.05 * r.normal(size=(H, W))
    else:
        raise ValueError(data_kind)
    nn = 0.5 + (lab * 3 % 7) / 4.0 + 0.1 * r.uniform(size=(H, W))
    if noise_factor != 1.0:  # a dataset that differs from the standard one in its noise-map only
        nn = nn * noise_factor
    if units != 1.0:  # the same dataset expressed in other units (counts vs electrons per second ...): data and noise scale together
        dn = dn * units
        nn = nn * units
    data = aa.Array2D(values=dn, mask=mask)
    noise = aa.Array2D(values=nn, mask=mask)
    kv = kernel_values(kshape, psf_kind, seed)
    psf = aa.Kernel2D.no_mask(values=kv, pixel_scales=scales)
    if sub is None:
        over = aa.OverSamplingDataset()
    elif sub == 0:
        # per-pixel (non-uniform) sub-size map, cyclic 2,1,3 over the unmasked pixels in slim order
        n_un = int((~m).sum())
        smap = aa.Array2D(values=np.array([2, 1, 3])[np.arange(n_un) % 3], mask=mask)
        over = aa.OverSamplingDataset(pixelization=aa.OverSamplingUniform(sub_size=smap))
    else:
        over = aa.OverSamplingDataset(pixelization=aa.OverSamplingUniform(sub_size=sub))
    ds = aa.Imaging(data=data, noise_map=noise, psf=psf, over_sampling=over, use_normalized_psf=normalize)
    return {
        "aa": aa, "mask_bool": m, "mask": mask, "ds": ds,
        "data": dn[~m].copy(), "noise": nn[~m].copy(),
        "kernel": np.array(ds.psf.native).copy(), "n": int((~m).sum()),
    }


# ----------------------------------------------------------------------------- linear objects

OBJ_KINDS = ("rectA", "rectB", "del", "func", "funcS")
# extra kinds used by explicit menus only (not part of the permutation alphabet): a second, different 2-function list
# and a rectangular mapper with a few hundred parameters (18x18 mesh over the same source plane as rectA)
EXTRA_KINDS = ("funcB", "rectL")


def _func_list_cls():
    from autoarray.inversion.linear_obj.func_list import AbstractLinearObjFuncList

    class VerifFuncList(AbstractLinearObjFuncList):
        def __init__(self, grid, mapping_matrix, regularization=None, override=None):
            super().__init__(grid=grid, regularization=regularization)
            self._mm = mapping_matrix
            self._override = override

        @property
        def params(self):
            return self._mm.shape[1]

        @property
        def mapping_matrix(self):
            return self._mm

        @property
        def operated_mapping_matrix_override(self):
            return self._override

    return VerifFuncList


_FL = None


def func_list_cls():
    global _FL
    if _FL is None:
        _FL = _func_list_cls()
    return _FL


def source_plane(fx, kind, seed):
    """Source-plane positions of the over-sampled pixelization grid under a menu of distortions."""
    ds = fx["ds"]
    grid = ds.grids.pixelization
    osr = grid.over_sampler
    g = np.array(osr.over_sampled_grid)
    r = dom.rng(seed, "src", kind, fx["n"])
    jit = 1e-3 * r.uniform(-1, 1, size=g.shape)
    if kind == "identity":
        s = g + jit
    elif kind == "warp":
        y, x = g[:, 0], g[:, 1]
        s = np.stack([0.9 * y + 0.25 * x + 0.05 * x * x, 1.2 * x - 0.15 * y + 0.04 * y * y], axis=1) + jit
    else:
        raise ValueError(kind)
    return osr, s


DEL_VERTS = np.array(
    [[1.9, -1.8], [2.0, 1.7], [-1.7, -2.0], [-1.8, 1.9], [0.13, 0.21], [0.71, -0.52], [-0.55, 0.43], [1.1, 0.35], [-0.9, -0.75]]
)


def make_obj(fx, kind, reg=True, seed=0, coefficient=1.0, regularization=None):
    """regularization: a ready regularization scheme instance (overrides reg / coefficient, which give Constant)."""
    aa = fx["aa"]
    mask = fx["mask"]
    regul = aa.reg.Constant(coefficient=coefficient) if reg else None
    if regularization is not None:
        regul = regularization
    if kind in ("rectA", "rectB", "rectL"):
        osr, s = source_plane(fx, "warp" if kind == "rectB" else "identity", seed)
        sg = aa.Grid2DIrregular(values=s)
        mesh = aa.Mesh2DRectangular.overlay_grid(shape_native={"rectA": (3, 3), "rectB": (3, 4), "rectL": (18, 18)}[kind], grid=sg)
        return aa.Mapper(
            mapper_grids=aa.MapperGrids(mask=mask, source_plane_data_grid=sg, source_plane_mesh_grid=mesh, adapt_data=fx["ds"].noise_map),
            over_sampler=osr, regularization=regul,
        )
    if kind == "del":
        osr, s = source_plane(fx, "warp", seed)
        sg = aa.Grid2DIrregular(values=s)
        scale = max(1.0, np.abs(s).max() / 1.6)
        r = dom.rng(seed, "delverts")
        verts = DEL_VERTS * scale + 1e-3 * r.uniform(-1, 1, size=DEL_VERTS.shape)
        mesh = aa.Mesh2DDelaunay(values=aa.Grid2DIrregular(values=verts))
        return aa.Mapper(
            mapper_grids=aa.MapperGrids(mask=mask, source_plane_data_grid=sg, source_plane_mesh_grid=mesh, adapt_data=fx["ds"].noise_map),
            over_sampler=osr, regularization=regul,
        )
    if kind == "funcB":
        n = fx["n"]
        k = np.arange(n, dtype=float)
        mm = np.stack([0.15 + (k * 5 % 7) / 6.0, 0.9 - (k * 3 % 4) / 5.0], axis=1)
        return func_list_cls()(grid=fx["ds"].grids.uniform, mapping_matrix=mm, regularization=regul)
    if kind in ("func", "funcS"):
        n = fx["n"]
        k = np.arange(n, dtype=float)
        mm = np.stack([0.2 + (k * 3 % 5) / 5.0, 0.1 + (k * 2 % 7) / 7.0], axis=1)
        if kind == "funcS":
            mm = mm * np.where(np.arange(n) % 2 == 0, 1.0, -0.7)[:, None]
            mm[n // 2, 0] = 0.0
            mm = np.concatenate([mm, (0.3 - (k % 3) / 3.0)[:, None]], axis=1)
        return func_list_cls()(grid=fx["ds"].grids.uniform, mapping_matrix=mm, regularization=regul)
    raise ValueError(kind)


def reference_B(fx, objs):
    """Blurred mapping matrix of all objects, from each object's OWN mapping matrix (certified separately by C06)."""
    C = blur_matrix(fx["mask_bool"], fx["kernel"])
    blocks = []
    for o in objs:
        ov = getattr(o, "operated_mapping_matrix_override", None)
        if ov is not None:
            blocks.append(np.array(ov, dtype=float))
        else:
            blocks.append(C @ np.array(o.mapping_matrix, dtype=float))
    return np.concatenate(blocks, axis=1), [b.shape[1] for b in blocks]


def settings(aa, use_w_tilde, positive=False, p_initial=False, force_edge=False, diag=1e-8):
    return aa.SettingsInversion(
        use_w_tilde=use_w_tilde,
        use_positive_only_solver=positive,
        positive_only_uses_p_initial=p_initial,
        force_edge_pixels_to_zeros=force_edge,
        no_regularization_add_to_curvature_diag_value=diag,
    )
