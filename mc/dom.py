"""Finite, completely enumerated input domains shared by the property modules."""
import itertools
import numpy as np


def shapes_cells(max_cells, min_side=1):
    """All (H, W) with H*W <= max_cells, ordered by cell count then H."""
    out = []
    for h in range(min_side, max_cells + 1):
        for w in range(min_side, max_cells + 1):
            if h * w <= max_cells:
                out.append((h, w))
    out.sort(key=lambda s: (s[0] * s[1], s[0]))
    return out


def mask_from_bits(h, w, bits):
    """bit k set <=> flattened (row-major) pixel k is MASKED (True)."""
    n = h * w
    a = np.fromiter(((bits >> k) & 1 for k in range(n)), dtype=bool, count=n)
    return a.reshape(h, w)


def all_mask_cases(max_cells, min_side=1, extra_shapes=()):
    """(h, w, bits) for every mask with >= 1 unmasked pixel, simplest first."""
    for (h, w) in list(shapes_cells(max_cells, min_side)) + list(extra_shapes):
        n = h * w
        for bits in range(2 ** n - 1):  # 2**n-1 == all masked, excluded
            yield (h, w, bits)


def touches_frame(m):
    u = ~m
    return bool(u[0, :].any() or u[-1, :].any() or u[:, 0].any() or u[:, -1].any())


def n_components(m, conn8=False):
    """Number of connected components of the unmasked set."""
    u = ~m
    seen = np.zeros_like(u)
    h, w = u.shape
    n = 0
    for i in range(h):
        for j in range(w):
            if u[i, j] and not seen[i, j]:
                n += 1
                st = [(i, j)]
                seen[i, j] = True
                while st:
                    a, b = st.pop()
                    for da in (-1, 0, 1):
                        for db in (-1, 0, 1):
                            if (da or db) and (conn8 or da == 0 or db == 0):
                                c, d = a + da, b + db
                                if 0 <= c < h and 0 <= d < w and u[c, d] and not seen[c, d]:
                                    seen[c, d] = True
                                    st.append((c, d))
    return n


def interior_mask_cases(frame, kshape):
    """All masks on `frame` whose unmasked pixels keep the kernel footprint inside the frame."""
    H, W = frame
    hy, hx = kshape[0] // 2, kshape[1] // 2
    cells = [(i, j) for i in range(hy, H - hy) for j in range(hx, W - hx)]
    n = len(cells)
    for bits in range(1, 2 ** n):  # bit set <=> UNMASKED
        yield bits


def interior_mask(frame, kshape, bits):
    H, W = frame
    hy, hx = kshape[0] // 2, kshape[1] // 2
    cells = [(i, j) for i in range(hy, H - hy) for j in range(hx, W - hx)]
    m = np.ones((H, W), dtype=bool)
    for k, (i, j) in enumerate(cells):
        if (bits >> k) & 1:
            m[i, j] = False
    return m


def rng(seed, *salt):
    import zlib

    s = zlib.crc32(repr(salt).encode()) ^ (int(seed) * 2654435761 & 0xFFFFFFFF)
    return np.random.RandomState(s & 0x7FFFFFFF)


def close(a, b, rtol=1e-9, atol=1e-12):
    a = np.asarray(a)
    b = np.asarray(b)
    if a.shape != b.shape:
        return False
    return bool(np.allclose(a, b, rtol=rtol, atol=atol, equal_nan=True))


def exact(a, b):
    a = np.asarray(a)
    b = np.asarray(b)
    return a.shape == b.shape and bool(np.array_equal(a, b))


def maxdiff(a, b):
    a = np.asarray(a)
    b = np.asarray(b)
    if a.shape != b.shape:
        return "shape %s vs %s" % (a.shape, b.shape)
    if a.size == 0:
        return 0.0
    return float(np.max(np.abs(a - b)))
