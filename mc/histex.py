"""
histex - explicit-state, breadth-first explorer over histories of real operations on a real object graph.

A *graph* provides
    build()            -> ctx : a fresh object graph (dict of named things; the caller-owned inputs live in it too)
    events             : ordered list of (label, fn(ctx) -> observation)   (small finite menu, simplest first)
    roots(ctx)         -> dict name -> object whose reachable contents define the state
    inputs(ctx)        -> dict name -> caller-owned array / shared default that no event may change

A *state* is identified by the canonical hash of everything reachable from roots() (all __dict__ entries including
cached_property values, numpy buffers by content) plus the inputs and the global numpy RNG state. Merged states have
identical futures because every later observation is a deterministic function of exactly these contents; the hash is
over full contents, so at worst it is over-fine. Live objects are never copied: a state is re-materialised by
replaying its history on a fresh graph.

Oracle on every transition (history h, event e):
  * the observation of e after h equals the observation of e on a pristine graph (tolerance 1e-12 relative);
  * the fingerprints of the caller-owned inputs / shared defaults are unchanged by e (blame is per event);
  * an exception raised by e after h but not on the pristine graph (or vice versa) is a violation.
"""
import hashlib
import os
import traceback

import numpy as np

# ----------------------------------------------------------------------------- canonical hashing


def _h(b):
    return hashlib.sha1(b).digest()


class Canon:
    """Deterministic content hash of an object graph (cycle safe)."""

    def __init__(self, skip_keys=()):
        self.seen = {}
        self.skip = set(skip_keys)
        self.keep = []  # keep objects alive so ids are not reused during one walk

    def digest(self, obj):
        return hashlib.sha1(self.walk(obj, 0)).hexdigest()[:20]

    def walk(self, o, depth):
        if depth > 40:
            return b"<deep>"
        if o is None or isinstance(o, (bool, int, float, complex, str, bytes)):
            return repr(o).encode()
        if isinstance(o, np.generic):
            return repr(o.item()).encode()
        oid = id(o)
        if oid in self.seen:
            return b"<ref%d>" % self.seen[oid]
        if isinstance(o, np.ndarray):
            self.seen[oid] = len(self.seen)
            self.keep.append(o)
            base = np.asarray(o)
            if base.dtype == object:
                body = b"|".join(self.walk(x, depth + 1) for x in base.ravel().tolist())
            else:
                body = _h(np.ascontiguousarray(base).tobytes())
            out = b"nd:" + type(o).__name__.encode() + str(base.dtype).encode() + str(base.shape).encode() + body
            d = getattr(o, "__dict__", None)
            if d:
                out += b"{" + self._dict(d, depth) + b"}"
            return _h(out)
        if isinstance(o, (list, tuple)):
            self.seen[oid] = len(self.seen)
            self.keep.append(o)
            return _h(b"seq:" + b",".join(self.walk(x, depth + 1) for x in o))
        if isinstance(o, (set, frozenset)):
            return _h(b"set:" + b",".join(sorted(self.walk(x, depth + 1) for x in o)))
        if isinstance(o, dict):
            self.seen[oid] = len(self.seen)
            self.keep.append(o)
            return _h(b"dict:" + self._dict(o, depth))
        if callable(o) and not hasattr(o, "__dict__"):
            return b"<callable>"
        if isinstance(o, type):
            return b"<class %s>" % o.__name__.encode()
        mod = type(o).__module__ or ""
        d = getattr(o, "__dict__", None)
        if d is None:
            slots = getattr(type(o), "__slots__", None)
            if slots:
                d = {s: getattr(o, s, None) for s in slots}
        if d is None or mod.startswith(("scipy", "matplotlib", "logging", "threading", "astropy")):
            if mod.startswith("scipy.spatial"):
                pts = getattr(o, "points", None)
                sm = getattr(o, "simplices", None)
                return _h(b"scipy:" + type(o).__name__.encode() + (self.walk(pts, depth + 1) if pts is not None else b"") + (self.walk(sm, depth + 1) if sm is not None else b""))
            return b"<opaque %s>" % type(o).__name__.encode()
        self.seen[oid] = len(self.seen)
        self.keep.append(o)
        return _h(b"obj:" + type(o).__name__.encode() + b"{" + self._dict(d, depth) + b"}")

    def _dict(self, d, depth):
        items = []
        for k, v in d.items():
            if isinstance(k, str):
                if k in self.skip:
                    continue
                ks = k.encode()
            else:
                ks = b"<key %s>" % type(k).__name__.encode()  # object keys: position (insertion order) + type
            items.append((ks, self.walk(v, depth + 1)))
        if all(isinstance(k, str) for k in d.keys()):
            items.sort()
        return b";".join(a + b"=" + b for a, b in items)


def fingerprint(x):
    """Byte-level fingerprint of a caller-owned input (array / object with __dict__)."""
    return Canon().digest(x)


def rng_fingerprint():
    st = np.random.get_state()
    return hashlib.sha1(repr(st[0]).encode() + st[1].tobytes() + repr(st[2:]).encode()).hexdigest()[:16]


# ----------------------------------------------------------------------------- observations


def observe(x, depth=0):
    """Turn a returned value into a comparable nested structure of ndarrays / scalars."""
    if x is None or isinstance(x, (bool, int, str)):
        return x
    if isinstance(x, (float, complex, np.generic)):
        return np.asarray(x)
    if isinstance(x, np.ndarray):
        a = np.array(x)
        if a.dtype == object:
            return [observe(v, depth + 1) for v in a.ravel().tolist()]
        return a.copy()
    if hasattr(x, "_array") and hasattr(x, "native"):  # autoarray structures wrap their ndarray
        return observe(np.array(x), depth)
    if isinstance(x, dict):
        return [observe(v, depth + 1) for v in x.values()]
    if isinstance(x, (list, tuple)):
        return [observe(v, depth + 1) for v in x]
    if depth < 3 and hasattr(x, "__dict__"):
        return ("obj", type(x).__name__, Canon().digest(x))
    return ("opaque", type(x).__name__)


def same(a, b, rtol=1e-12):
    if isinstance(a, np.ndarray) and isinstance(b, np.ndarray):
        if a.shape != b.shape:
            return False
        if a.dtype.kind in "biu" and b.dtype.kind in "biu":
            return bool(np.array_equal(a, b))
        if a.size == 0:
            return True
        try:
            scale = max(1.0, float(np.nanmax(np.abs(a)))) if np.isfinite(np.abs(a)).any() else 1.0
            return bool(np.allclose(a, b, rtol=rtol, atol=rtol * scale, equal_nan=True))
        except TypeError:
            return bool(np.array_equal(a, b))
    if isinstance(a, list) and isinstance(b, list):
        return len(a) == len(b) and all(same(x, y, rtol) for x, y in zip(a, b))
    if isinstance(a, tuple) and isinstance(b, tuple):
        return a == b
    if isinstance(a, np.ndarray) or isinstance(b, np.ndarray):
        return False
    return a == b


def brief(o):
    if isinstance(o, np.ndarray):
        f = o.ravel()
        return "array%s%s" % (o.shape, np.array2string(f[:6], precision=6))
    if isinstance(o, list):
        return "[" + ", ".join(brief(x) for x in o[:3]) + ("..." if len(o) > 3 else "") + "]"
    return repr(o)[:120]


# ----------------------------------------------------------------------------- one step


def run_event(graph, ctx, idx):
    label, fn = graph.events[idx]
    if os.environ.get("VERIF_DIRTY_HEAP", "1") != "0":
        from mc.core import dirty_heap  # uninitialised memory is a source of nondeterminism the harness owns (see core.dirty_heap)

        dirty_heap()
    try:
        return ("ok", observe(fn(ctx)))
    except Exception as e:  # noqa
        tb = traceback.extract_tb(e.__traceback__)
        where = ""
        for fr in reversed(tb):
            if "/autoarray/" in fr.filename:
                where = "%s:%s" % (os.path.basename(fr.filename), fr.name)
                break
        return ("exc", "%s@%s" % (type(e).__name__, where), repr(e)[:200])


def state_of(graph, ctx):
    c = Canon(skip_keys=getattr(graph, "skip_keys", ()))
    parts = [c.walk(graph.roots(ctx), 0), c.walk(graph.inputs(ctx), 0)]
    parts.append(rng_fingerprint().encode())
    return hashlib.sha1(b"|".join(parts)).hexdigest()[:20]


def input_prints(graph, ctx):
    return {k: fingerprint(v) for k, v in graph.inputs(ctx).items()}


def expand(graph, history, pristine):
    """
    Replay `history` on a fresh graph once per candidate event and execute that event.
    Returns a list of (event index, new state hash, violations, outcome tag).
    """
    out = []
    for idx, (label, fn) in enumerate(graph.events):
        if hasattr(graph, "enabled") and not graph.enabled(history, idx):
            continue
        ctx = graph.build()
        bad_replay = False
        for h in history:
            r = run_event(graph, ctx, h)
        before = input_prints(graph, ctx)
        res = run_event(graph, ctx, idx)
        after = input_prints(graph, ctx)
        viol = []
        hist_labels = [graph.events[h][0] for h in history]
        for k in before:
            if before[k] != after.get(k):
                viol.append({"finding": "mutates:%s<-%s" % (k, label), "msg": "event %r changed caller-owned/shared %r (history %s)" % (label, k, hist_labels)})
        ref = pristine[idx]
        if res[0] != ref[0]:
            viol.append({"finding": "exception-differs:%s" % label,
                         "msg": "after %s: %s ; pristine: %s" % (hist_labels, res[1:] if res[0] == "exc" else "ok", ref[1:] if ref[0] == "exc" else "ok")})
        elif res[0] == "ok" and not same(res[1], ref[1]):
            culprit = _culprit(graph, history, idx, ref)
            viol.append({"finding": "order-dependence:%s<-%s" % (label, culprit),
                         "msg": "after %s the read %r gives %s ; on a pristine graph %s" % (hist_labels, label, brief(res[1]), brief(ref[1]))})
        elif res[0] == "exc" and res[1] != ref[1]:
            viol.append({"finding": "exception-differs:%s" % label, "msg": "after %s: %s ; pristine: %s" % (hist_labels, res[1:], ref[1:])})
        if hasattr(graph, "check"):
            viol.extend(graph.check(ctx, idx, res, hist_labels))
        out.append((idx, state_of(graph, ctx), viol, res[0]))
    return out


def _culprit(graph, history, idx, ref):
    """Shortest suffix-free explanation: the single earlier event that alone corrupts the read, if any."""
    for h in dict.fromkeys(history):
        ctx = graph.build()
        run_event(graph, ctx, h)
        r = run_event(graph, ctx, idx)
        if r[0] != ref[0] or (r[0] == "ok" and not same(r[1], ref[1])):
            return graph.events[h][0]
    return "+".join(graph.events[h][0] for h in history)


def pristine_values(graph):
    vals = []
    for idx in range(len(graph.events)):
        ctx = graph.build()
        vals.append(run_event(graph, ctx, idx))
    # determinism: a second pristine evaluation must agree
    for idx in range(len(graph.events)):
        ctx = graph.build()
        r = run_event(graph, ctx, idx)
        a = vals[idx]
        if r[0] != a[0] or (r[0] == "ok" and not same(r[1], a[1])) or (r[0] == "exc" and r[1] != a[1]):
            raise RuntimeError("non-deterministic pristine value for event %r of graph %r" % (graph.events[idx][0], graph.name))
    return vals


# ----------------------------------------------------------------------------- breadth-first search


def bfs(graph, depth, mapper=map, task_args=None, max_states=None):
    """
    Explore all histories up to `depth` with state de-duplication.
    `mapper(fn, items)` may be a pool's imap; `task_args(history)` builds the picklable argument for `histex_task`.
    Returns dict(states, transitions, replays, violations=[(history labels, event label, finding, msg)], per_depth, capped).
    """
    pristine = pristine_values(graph)
    ctx0 = graph.build()
    s0 = state_of(graph, ctx0)
    seen = {s0}
    frontier = [()]
    stats = {"states": 1, "transitions": 0, "replays": 0, "violations": [], "per_depth": [], "capped": False, "outcomes": {}, "samples": []}
    for d in range(depth):
        if not frontier:
            break
        if task_args is None:
            results = (expand(graph, h, pristine) for h in frontier)
        else:
            results = mapper(histex_task, [task_args(h) for h in frontier])
        nxt = []
        for h, res in zip(frontier, results):
            for idx, st, viol, tag in res:
                stats["transitions"] += 1
                stats["replays"] += 1
                stats["outcomes"][tag] = stats["outcomes"].get(tag, 0) + 1
                if len(h) == d and (len(stats["samples"]) < 2 * (d + 1)) and idx in (0, len(graph.events) // 2):
                    stats["samples"].append({"history": [graph.events[i][0] for i in h], "event": graph.events[idx][0], "result": tag})
                for v in viol:
                    stats["violations"].append(([graph.events[i][0] for i in h], graph.events[idx][0], v["finding"], v["msg"]))
                if st not in seen:
                    seen.add(st)
                    nxt.append(h + (idx,))
        stats["per_depth"].append({"depth": d + 1, "histories_expanded": len(frontier), "new_states": len(nxt)})
        frontier = nxt
        if max_states and len(seen) > max_states:
            stats["capped"] = True
            break
    stats["states"] = len(seen)
    stats["frontier_left"] = len(frontier)
    return stats


_TASK_CACHE = {}


def histex_task(args):
    """Pool task, run in a freshly forked child of the worker so that no process-global state leaks between tasks."""
    from mc.core import isolated

    kind, val = isolated(_histex_task, args)
    if kind == "ok":
        return val
    modname, key, history = args
    what = "worker-process-died" if kind == "died" else "task-timeout"
    return [(0, "lost-%s" % repr(history), [{"finding": what, "msg": "%s (%s) while expanding history %s of graph %s" % (what, val, list(history), list(key))}], "exc")]


def _histex_task(args):
    """(module name, graph key, history) -> expand()."""
    import importlib

    modname, key, history = args
    ck = (modname, repr(key))
    if ck not in _TASK_CACHE:
        mod = importlib.import_module(modname)
        g = mod.graph_for(key)
        _TASK_CACHE[ck] = (g, pristine_values(g))
    g, pristine = _TASK_CACHE[ck]
    return expand(g, tuple(history), pristine)


def replay(graph, history_labels, event_label):
    """Re-execute one recorded (history, event) without the explorer; returns the violations found."""
    labels = [l for l, _ in graph.events]
    hist = tuple(labels.index(l) for l in history_labels)
    idx = labels.index(event_label)
    pristine = pristine_values(graph)
    for i, st, viol, tag in expand(_Only(graph, idx), hist, pristine):
        return viol
    return []


class _Only:
    """View of a graph in which only one event is enabled (used by replay)."""

    def __init__(self, g, idx):
        self.g, self.idx = g, idx

    def __getattr__(self, k):
        return getattr(self.g, k)

    def enabled(self, history, idx):
        return idx == self.idx
