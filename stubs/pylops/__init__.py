class LinearOperator:
    def __init__(self, *args, **kwargs):
        pass
