#!/bin/bash
# Offline setup: nothing to build or install. Verifies the harness can import /repo's working tree.
cd "$(dirname "$(readlink -f "$0")")" || exit 2
mkdir -p evidence replays
chmod +x check
export PYTHONDONTWRITEBYTECODE=1
/venv/bin/python -W ignore - <<'PY'
import sys
sys.path.insert(0, "/verif")
from mc import core
core.setup_library()
import autoarray as aa, pylops
from autoarray.operators.transformer import TransformerDFT
print("setup ok: autoarray from", aa.__file__)
PY
