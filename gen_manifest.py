#!/usr/bin/env python3
"""Regenerates MANIFEST.json from the table below (keeps it schema-valid at all times)."""
import json, os, importlib, sys

HERE = os.path.dirname(os.path.abspath(__file__))
sys.path.insert(0, HERE)

# id -> (technique, level text, design ref)
CHECKS = {}


def reg(pid, technique, text, ref, note=None):
    CHECKS[pid] = (technique, text, ref, note)


from manifest_table import TABLE, NOT_APPLICABLE  # noqa

for row in TABLE:
    reg(*row)

BASE = "cd /repo && /venv/bin/python -m pytest -ra -q -p no:cacheprovider --timeout=900 --continue-on-collection-errors"
m = {
    "version": 1,
    "setup_cmd": "./setup.sh",
    "hooks": {
        "guard": "PYAUTOARRAY_VERIF",
        "enable": "no instrumentation is compiled in: the checks import /repo's working tree directly "
                  "(PYTHONPATH=/repo, no build step); ./check exports PYAUTOARRAY_VERIF=1 but no source line reads it",
        "baseline_off_cmd": BASE,
        "source_commits": [],
        "add_only": True,
    },
    "engines": [
        {"name": "scope", "path": "mc/core.py",
         "serves_properties": sorted(p for p, r in CHECKS.items() if "histor" not in r[0]),
         "kind_free_text": "stateless bounded-exhaustive input-space explorer: every structural input of a finite "
                           "enumerated domain is executed on the real library and compared with a numpy reference model"},
        {"name": "histex", "path": "mc/histex.py",
         "serves_properties": sorted(p for p, r in CHECKS.items() if "histor" in r[0]),
         "kind_free_text": "explicit-state breadth-first explorer over read/derive histories on real object graphs; "
                           "canonical state = hash of all __dict__ contents, caller inputs, shared defaults and RNG; "
                           "states re-materialised by replaying the history; differential oracle against a pristine graph"},
    ],
    "checks": [],
    "notes": "All checks: ./check Cnn --tier quick|thorough (VERIF_SEED, VERIF_TIER honoured). "
             "Known findings: known_findings.json (read-only at run time). See DESIGN.md.",
    "not_applicable": NOT_APPLICABLE,
}
for pid in sorted(CHECKS):
    technique, text, ref, note = CHECKS[pid]
    m["checks"].append({
        "property_id": pid,
        "quick_cmd": "./check %s --tier quick" % pid,
        "thorough_cmd": "./check %s --tier thorough" % pid,
        "evidence_file": "/verif/evidence/%s.json" % pid,
        "replay_cmd_template": "./check %s --replay {path}" % pid,
        "engine": "histex" if "histor" in technique else "scope",
        "level_claimed": {"category": "model_checking", "text": text, "design_ref": ref},
        "level_note": note or ("pure-Python path of the library (numba absent in this image); numpy reference models "
                               "are trusted; statement holds only inside the enumerated bounds and value alphabets "
                               "recorded in the evidence file"),
        "technique": technique,
    })
json.dump(m, open(os.path.join(HERE, "MANIFEST.json"), "w"), indent=1)
print("MANIFEST.json written with", len(m["checks"]), "checks;", len(NOT_APPLICABLE), "not applicable")
