# (property id, technique, level text, DESIGN.md section)
TABLE = [
    ("C01", "bounded exhaustive enumeration of all masks x storage modes vs numpy indexing reference",
     "Every boolean mask of every shape up to 12 (quick) / 16 (thorough) cells, and every 1D mask up to that length, "
     "is run through the real Array2D/Grid2D/VectorYX2D/Array1D/Grid1D constructors in both input forms and both "
     "storage modes with injective and adversarial value labellings; slim/native/round-trip/index-table observables "
     "are compared exactly with numpy boolean indexing. Complete inside the bound, nothing sampled.", "4/C01"),
]
_ALL = ["C%02d" % i for i in range(1, 21)]
_PENDING_REASON = ("check under construction in this session: machinery for this property is not yet committed "
                   "(see DESIGN.md section 4 for the planned bounded-exhaustive check)")
NOT_APPLICABLE = [{"property_id": p, "reason": _PENDING_REASON} for p in _ALL if p not in {r[0] for r in TABLE}]
