# (property id, technique, level text, DESIGN.md section)
_SCOPE = "bounded exhaustive input-space exploration of the real code vs numpy reference model"
TABLE = [
    ("C01", _SCOPE + " (all masks x storage modes)",
     "Every boolean mask of every shape up to 12 (quick) / 16 (thorough) cells, and every 1D mask up to that length, "
     "is run through the real Array2D/Grid2D/VectorYX2D/Array1D/Grid1D constructors in both input forms and both "
     "storage modes with injective and adversarial value labellings; slim/native/round-trip/index-table observables "
     "are compared exactly with numpy boolean indexing. Complete inside the bound, nothing sampled.", "4/C01"),
    ("C02", _SCOPE + " (all shapes x scales x origins x pixels x in-pixel offsets; every step of each mask-constructor step function)",
     "All shapes up to 6x6 x 7 pixel-scale pairs x 6 origins x every pixel x 81 in-pixel offsets through every public "
     "conversion route (coordinates also handed in every dtype / container / memory-layout form), and for the shape-based mask constructors one radius inside every gap between consecutive "
     "distinct pixel-centre radii, so every distinct mask the constructor can return for a geometry is produced; "
     "closed-form oracle; the 1e-9 tie bands the property excludes are excluded by construction.", "4/C02"),
    ("C03", _SCOPE + " (operator extraction on basis images for all interior masks x odd kernel shapes)",
     "For every interior mask of frames up to 6x6 and every odd kernel shape in {1,3,5}^2 (7 in thorough) the whole "
     "blurring operator of the real Convolver is extracted on basis images / blurring images / mapping-matrix columns "
     "with a signed, sub-threshold coefficient alphabet and compared with a dense convolution matrix written from "
     "the definition; even kernels must be rejected; simulator/whole-frame convolution cross-checked. Further classes: masks with more unmasked pixels than 127/255/32767/65535 (operator extracted with comb images), whole-frame convolution with kernels up to 9x9 on high-dynamic-range images (pixel-wise accuracy), re-masked datasets.", "4/C03"),
    ("C04", _SCOPE + " (interior masks x PSF shapes/signs x ordered linear-object lists x both formalisms)",
     "Interior masks of a 5x5 frame (and non-square-PSF frames) x non-negative and signed PSFs x ordered lists of 1..3 "
     "linear objects (2 rectangular mappers, Delaunay mapper, non-negative and signed function lists, with/without "
     "regularization) through the factory and both inversion classes; D, F, operated mapping matrix, block order, "
     "symmetry, reconstruction and mapped data compared with B^T N^-1 d / B^T N^-1 B built from first principles.", "4/C04"),
    ("C05", _SCOPE + " (all integer-lattice SPD systems x every warm start; inversion configs x solver flags)",
     "Every SPD system A=R^T R+rho I over a small integer alphabet (n=2,3; n=4 thorough) x every right-hand side of the "
     "alphabet x {cold start, sign-pattern warm start, every boolean warm start} is solved by the real fnnls_cholesky "
     "and checked by the KKT certificate plus brute force over all supports; inversion level: datasets with positive, "
     "mixed and negative data x object lists x formalisms x solver flags incl. edge and image-pixel forced zeros (KKT of the "
     "reduced system, forced-zero id set derived independently, per-object mapped data); every solver system and a family of "
     "datasets are repeated in other units (exact rescaling must give the rescaled optimum).", "4/C05"),
    ("C09", _SCOPE + " (all small masks x geometries x sub-size maps x a 38-function grammar x schedules and thresholds)",
     "All masks with <= 9 cells x 12 geometries x sub-size maps (uniform 1..4 (8), every map in {1,2,3}^n for small n, cyclic "
     "patterns, config-driven adaptive maps) x 38 user functions through the decorator, array_via_func_from, "
     "binned_array_2d_from and the iterative scheme (3 schedules x accuracies x tolerances): sub-pixel positions and "
     "order, per-pixel means, areas, index tables, plain evaluation at sub-size one, and the stopping rule transcribed "
     "from the statement with 1e-9 tie bands excluded. Complete products of per-pixel sub-size maps up to {1..8}^4, {1..5}^5, {1,2,4}^6 for the index tables.", "4/C09"),
    ("C10", _SCOPE + " (all masks x odd kernel shapes vs brute-force set definitions)",
     "Every mask up to 12 (16) cells, not restricted to a masked outer ring, plus windows inside larger frames, x kernel "
     "shapes {1,3,5}^2: blurring mask (incl. the out-of-frame exception), edge and border sets with exactly the "
     "latitude the statement gives, and agreement of slim/native/mask/grid views.", "4/C10"),
    ("C12", _SCOPE + " (metamorphic: every entry point evaluated at origin o and o+d)",
     "Every listed entry point (39 finding classes) is evaluated on masks/datasets built at origin o and at o+d for a "
     "menu of translations incl. non-dyadic and large ones; coordinate results must shift by d, index/count/weight/"
     "matrix results must be identical. Translations with special structure (axis-aligned, equal components, pixel-scale multiples, minus the origin, larger than the mask) and the library's own subtracted_from / grid_offset routes.", "4/C12"),
    ("C14", _SCOPE + " (all shape pairs x kernels x masks x geometries)",
     "All (input shape, target shape) pairs with sides 1..5 -> 1..7 (1..6 -> 1..8 thorough), all extraction windows of "
     "small frames, odd kernels up to 7, all masks of small frames: centred window/embedding law with the parity "
     "latitude of the statement, pad-then-trim identity, ordered (coordinate, data, noise) triples under auto-padding, "
     "zoom window containment.", "4/C14"),
    ("C16", _SCOPE + " + explicit-state file model (all write/delete histories to depth 3/4)",
     "Shapes x masks x pixel scales x flip setting x routes (file and HDU; Array2D, Mask2D, Kernel2D, Array1D, Mask1D, "
     "Imaging) round-tripped through real FITS I/O in scratch directories; overwrite semantics checked on every event "
     "history up to depth 3 (4) against a 3-state file model. File model extended by directory state (0-3 missing levels, bare names, path spellings) and configuration histories of flip_for_ds9.", "4/C16"),
    ("C19", _SCOPE + " (fully exhaustive over shapes, regions, corners, windows, ranges)",
     "All shapes up to 5x5 (6x6), all valid regions, all four read-out corners, all region x window pairs, all front/"
     "trailing ranges and all small invalid tuples: rotation commutation/involution, extraction overlap law, sub-region "
     "arithmetic and validation as integer identities.", "4/C19"),
    ("C20", _SCOPE + " (all subsets of a 3x3 coordinate window x parity x flip x scale)",
     "All 511 non-empty subsets of a 3x3 integer-coordinate window x lattice parities x flip x side lengths x offsets, in "
     "both representations: up-sampling (children, count, area, vertices), neighbourhood as geometric sets, index "
     "selection, representation agreement and shape containment on a 7x7 reference lattice. Side lengths 1e-5..1e3 with 18 refinement levels, irregular fans / strips / moved patches, kept results inspected after interleaved calls.", "4/C20"),
    ("C06", _SCOPE + " (all small masks x sub-size maps x source-plane menus x rectangular and Delaunay meshes)",
     "All masks with <= 9 cells x sub-size maps (uniform 1..4, per-pixel int and float maps, every map in {1,2,3}^n for n<=3) "
     "and 44 mesh geometries (4 source-plane distortions x 5 rectangular shapes + 6 Delaunay vertex menus): mapping matrix, "
     "row sums, cell / simplex / barycentric weights against an independent interval-arithmetic overlay and a from-scratch "
     "empty-circumcircle Delaunay triangulation, dense vs unique-mapping encodings, neighbour tables. Read-order histories on one mesh / mapper object (every ordered pair of 12-16 reads first, all tables re-read).", "4/C06"),
    ("C07", _SCOPE + " (meshes x nine schemes x parameter menus; ordered object lists for block placement)",
     "Rectangular meshes 3..6^2 (7^2) and 8 Delaunay vertex menus x all nine regularization schemes x coefficient / signal-"
     "scale / adapt-image menus: size, symmetry, PSD / strict PD with Cholesky and the evidence's log-determinant, and the "
     "entrywise quadratic form against a Laplacian assembled from an independent adjacency; block placement through "
     "aa.Inversion on every ordered list of 1..3 object kinds with every regularization pattern. Kernel schemes with scale lengths 0.1..10 x field (condition-aware tolerances) and lists with repeated instances.", "4/C07"),
    ("C08", _SCOPE + " (all small masks x two evaluation modes x garbage menus; inversion lists for the evidence)",
     "All masks with <= 9 cells x value menus x sky offsets in the slim mode and, with four garbage placements in masked "
     "pixels, in the masked-native mode; all 502 interior masks of the 5x5 frame x a rotating third of 54 ordered object "
     "lists x both formalisms for the evidence terms (determinants on matrices reduced to regularized parameters); every "
     "statistic and derived map against its definition. Further classes: structures carried under their own different mask, datasets in units 1e-40..1e+40, a 324-parameter inversion, non-diagonally-dominant regularization matrices.", "4/C08"),
    ("C13", _SCOPE + " (masks x geometries x baseline sets x preload on/off; operator extraction on basis vectors)",
     "All masks with <= 8 cells x geometries x baseline sets (zero, repeated, generic) x preload on/off: visibilities, "
     "transformed mapping matrices (signed / sub-threshold alphabet) and the adjoint image against an explicit DFT "
     "matrix; interferometer data vector and curvature matrix on ordered object lists against noise-weighted Gram "
     "products. Further classes: baseline arrays edited in place after construction, exactly cancelling signed columns, datasets scaled by 1e-12..1e+12.", "4/C13"),
    ("C17", _SCOPE + " (all small masks / irregular sets / 1D masks x function grammar x decorators)",
     "All masks with <= 9 cells x pixel scales x origins, irregular coordinate menus, all 1D masks of length <= 6, and "
     "relocation rings, through to_array / to_grid / to_vector_yx / project_grid / transform / relocate_to_radial_minimum "
     "(alone and stacked) with injective, non-symmetric user functions (single, pair and list returns): container type, "
     "mask, entry k = f(coordinate k), projection geometry, relocation to exactly the minimum. Explicit keyword forms, configuration histories of the radial minimum, subclass instances of the dispatched containers.", "4/C17"),
    ("C18", _SCOPE + " (all small masks x sub-size maps x source-plane menus with outliers)",
     "All masks of frames with <= 9 cells (frame-touching included), all masks of the 3x3 interior of a 5x5 frame and of "
     "the 3x4/4x3 frames x sub-size maps x ten source-plane transforms with outliers, border copies and the centroid: "
     "interior points bitwise unchanged, on-ray, never outward, nearest-border radius, order preserved, mesh-vertex "
     "variant, farthest sub-pixel selection, mapper_grids_from wrappers. Ten exactly many-to-one transforms (coinciding border points) and outliers confined to the border's bounding box, through direct and mesh entry points.", "4/C18"),
    ("C11", "explicit-state breadth-first exploration of read/derive histories on real object graphs (state = content hash of the graph)",
     "Six families of real object graphs (structures; imaging datasets; inversion + mappers + valued mapper for four "
     "object lists in both formalisms and with the positive solver; calls relying on shared default arguments; seeded "
     "simulation under a perturbed global RNG) are explored breadth-first over all histories of reads, queries and "
     "derivations to the stated depth with state de-duplication; on every transition the value read must equal the "
     "pristine-graph value (and, for derived objects, the value of a fresh object built from the same contents) and "
     "the fingerprints of all caller-owned inputs and shared defaults must be unchanged. Content reads of every handed-on structure, windows sticking out of arrays, natively stored structures re-masked.", "4/C11"),
    ("C15", "explicit-state breadth-first exploration of histories of successive inversions sharing one Preloads object",
     "For every assignment of the public preload slots (48) x formalism setting x object list x mask, all histories of "
     "successive inversions (3 read orders x fresh/reused linear objects) sharing the Preloads object and dataset are "
     "explored to depth 3 (4) with state de-duplication; every output must equal the no-preload reference, preloaded "
     "arrays must stay byte-identical, and the factory's formalism choice must not change values (function-only lists "
     "included); further events: a second image sharing the w-tilde tables, tables from a rescaled noise-map (rejected or "
     "transparent), a second Preloads object at a re-used address; all slot subsets repeated in units of 1e-9.", "4/C15"),
]
_ALL = ["C%02d" % i for i in range(1, 21)]
_PENDING_REASON = ("check under construction in this session: machinery for this property is not yet committed "
                   "(see DESIGN.md section 4 for the planned bounded-exhaustive check)")
NOT_APPLICABLE = [{"property_id": p, "reason": _PENDING_REASON} for p in _ALL if p not in {r[0] for r in TABLE}]
